"""C01 bounded tier: Wtp.parse with the whole statement as run-time postcondition
over token soups, grammar documents and mutations of the pages embedded in the
repository's own tests.  Stand-in, never counted as proved."""
import itertools
import random
import re
import sys
from pathlib import Path

from bounded.harness import emit, new_ctx, payload, quiet_stdout

P = payload()
tier = P.get("tier", "quick")
seed = int(P.get("seed", 0))
rng = random.Random(seed)

from wikitextprocessor import NodeKind, WikiNode  # noqa: E402
from wikitextprocessor.common import MAGIC_FIRST, MAGIC_LAST, MAGIC_NUMBER  # noqa: E402

failures = {}
evaluations = 0
distinct = set()
samples = []


def fail(ident, what, witness, wclass="value"):
    if ident not in failures:
        failures[ident] = {"ident": ident, "witness_class": wclass, "what": what, "witness": witness}


TOK = ["{{T||1=x}}", "{{a|", "|1=", "||", "a", " ", "\n", "==", "===", "=", "* ", "# ", ": ", "; ", "*# ", "----", "{|", "|-", "|}", "|", "||", "!", "!!", "|+",
       "'''", "''", "[[", "]]", "[", "]", "[http://x.com:80/p y]", "https://e.org", "{{", "}}", "{{{", "}}}", "{{a|x}}",
       "<b>", "</b>", "<i>", "</i>", "<pre>", "</pre>", "<br>", "<br/>", "<ref>", "</ref>", "<span class=\"x\">", "</span>",
       "</span x>", "<nowiki>", "</nowiki>", "<nowiki/>", "<!--", "-->", "<div>", "</div>", "<table>", "<tr>", "<td>", "</td>",
       "</tr>", "</table>", "<li>", "<ul>", "</ul>", "__TOC__", "-{", "}-", "&amp;", "<math>", "</math>", "<hiero>", "</x>",
       "[[File:a.png|thumb|", "[//e.org:443 s]", "</br/>", "<span class={{a}}>", "<b id=a<nowiki/>b>", "<pre class={{a|x}}>",
       "<div id={{{1}}}>", "\thttp://e.org", "\u00a0https://e.org/p", "\rhttp://x.y", "</hl>", "</wbr>", "<hr/>", "<noinclude/>", "<section begin=a/>", "</section>", "[[dog]]s", "[sic]"]
LIST_KINDS = {NodeKind.LIST}
MAGIC_LO = MAGIC_NUMBER


def has_magic(s):
    return any(MAGIC_LO <= ord(ch) <= MAGIC_LAST for ch in s)


def check_children(lst, where, problems, parent_kind):
    prev_str = False
    for c in lst:
        if isinstance(c, str):
            if c == "":
                problems.append(f"empty string child in {where}")
            if prev_str:
                problems.append(f"adjacent strings in {where}")
            if has_magic(c):
                problems.append(f"placeholder character in {where}")
            prev_str = True
        elif isinstance(c, WikiNode):
            prev_str = False
            check_node(c, problems, parent_kind)
        else:
            problems.append(f"child of type {type(c).__name__} in {where}")


def check_node(n, problems, parent_kind):
    k = n.kind
    if k == NodeKind.LIST_ITEM and parent_kind != NodeKind.LIST:
        problems.append("list item not directly under a list")
    if k in (NodeKind.TABLE_ROW, NodeKind.TABLE_CAPTION) and parent_kind != NodeKind.TABLE:
        problems.append(f"{k.name} not under a table")
    if k in (NodeKind.TABLE_CELL, NodeKind.TABLE_HEADER_CELL) and parent_kind not in (NodeKind.TABLE_ROW, NodeKind.TABLE):
        problems.append(f"{k.name} not under a table row")
    if not isinstance(n.largs, list) or any(not isinstance(a, list) for a in n.largs):
        problems.append(f"largs of {k.name} is not a list of lists")
    else:
        for i, a in enumerate(n.largs):
            check_children(a, f"{k.name}.largs[{i}]", problems, k)
    if not isinstance(n.sarg, str):
        problems.append(f"sarg of {k.name} is {type(n.sarg).__name__}")
    elif has_magic(n.sarg):
        problems.append(f"placeholder character in sarg of {k.name}")
    if not isinstance(n.attrs, dict):
        problems.append(f"attrs of {k.name} not a dict")
    else:
        for kk, vv in n.attrs.items():
            if isinstance(vv, str) and has_magic(vv):
                problems.append(f"placeholder character in attribute of {k.name}")
    if k in (NodeKind.LIST, NodeKind.LIST_ITEM) and not n.sarg:
        problems.append(f"{k.name} without a marker prefix")
    if k in (NodeKind.TEMPLATE, NodeKind.TEMPLATE_ARG, NodeKind.LINK, NodeKind.URL, NodeKind.PARSER_FN) and not n.largs:
        problems.append(f"{k.name} without arguments")
    if k == NodeKind.TEMPLATE and isinstance(getattr(type(n), "template_parameters", None), property):
        try:
            tp = n.template_parameters
            if not isinstance(tp, dict):
                problems.append("template_parameters is not a dict")
        except Exception as ex:
            problems.append(f"template_parameters raises {type(ex).__name__}")
    check_children(n.children, f"{k.name}.children", problems, k)


# default output settings: diagnostics are formatted and printed (into the swallowed stdout), as in ordinary use
ctx = new_ctx({"a": "A{{{1|}}}", "h": "==H==\n{{{1|}}}"}, noisy=True)


import signal


class _Timeout(BaseException):
    pass


def _alarm(*a):
    raise _Timeout()


signal.signal(signal.SIGALRM, _alarm)
N_TIMEOUTS = [0]


def run(text, kw, tag):
    global evaluations
    if N_TIMEOUTS[0] >= 3:
        return          # non-termination established: do not wait for every further document
    evaluations += 1
    current_doc["text"] = text
    ctx.start_page("Tt")
    signal.alarm(20)
    try:
        with quiet_stdout():
            root = ctx.parse(text, **kw)
    except _Timeout:
        N_TIMEOUTS[0] += 1
        fail("parser:Wtp.parse#terminates", "parse did not return within 20 s", {"text": text[:200], "options": kw, "source": tag},
             "timeout")
        return
    except RecursionError:
        signal.alarm(0)
        return
    except Exception as ex:
        signal.alarm(0)
        if type(ex).__name__ == "LuaError" and "ustring" in str(ex):
            return      # the Scribunto libraries are absent offline: #invoke cannot run (environment, not a defect)
        import traceback
        tb = traceback.extract_tb(ex.__traceback__)
        inner = [f for f in tb if "wikitextprocessor" in f.filename]
        fail("parser:Wtp.parse#never-raises", f"{type(ex).__name__}: {str(ex)[:80]} in {inner[-1].name if inner else '?'}",
             {"text": text[:200], "options": kw, "source": tag}, f"{type(ex).__name__}@{inner[-1].name if inner else '?'}")
        return
    signal.alarm(0)
    problems = []
    if not isinstance(root, WikiNode) or root.kind != NodeKind.ROOT:
        problems.append("result is not a ROOT node")
    else:
        check_node(root, problems, None)
    if ctx.parser_stack:
        problems.append("parser_stack not empty after parse")
    if ctx.begline_disable_counter != 0:
        problems.append("begline_disable_counter not restored")
    for p in dict.fromkeys(problems):
        cls = p.split(" in ")[0]
        fail("parser:Wtp.parse#well-formed-tree[" + cls + "]", p, {"text": text[:200], "options": kw, "source": tag}, cls)
    distinct.add(text)


# ---- run-time reading of the stack contract on the functions whose contract the static tier only ASSUMES
# (contracts/c01_stack.py: ASSUMED, ASSUMED_OTHER) and of _parser_pop's precondition: validation of those assumptions
from bounded.harness import Monitor, find_ctx  # noqa: E402
ASSUMED_FNS = ["subtitle_end_fn", "url_fn", "table_caption_fn", "table_hdr_cell_fn", "table_row_fn", "table_cell_fn",
               "table_end_fn", "list_fn", "pop_until_nth_list"]
monitored = {"calls": 0}
current_doc = {"text": None}


def stack_ok(c):
    st = c.parser_stack
    return len(st) >= 1 and st[0].kind == NodeKind.ROOT and all(n.kind != NodeKind.ROOT for n in st[1:])


def _on_enter(code, frame):
    c = find_ctx(frame)
    if c is None:
        return
    monitored["calls"] += 1
    if code.co_name == "_parser_pop":
        if len(c.parser_stack) < 2:
            fail("parser:_parser_pop#pre#two-nodes-on-the-stack", f"called with {len(c.parser_stack)} node(s) on the stack",
                 {"text": (current_doc["text"] or "")[:200]}, "stack-floor")
    elif not stack_ok(c):
        fail(f"parser:{code.co_name}#pre#stack_ok", "stack discipline broken on entry", {"text": (current_doc["text"] or "")[:200]},
             "stack-floor")


def _on_exit(code, frame, retval):
    c = find_ctx(frame)
    if c is not None and not stack_ok(c):
        fail(f"parser:{code.co_name}#post#stack_ok", "stack discipline broken on return",
             {"text": (current_doc["text"] or "")[:200]}, "stack-floor")


mon = Monitor([("parser.py", n) for n in ASSUMED_FNS + ["_parser_pop"]], _on_enter, _on_exit, lambda *a: None)
mon.start()
OPTS = [{}, {"pre_expand": True}, {"expand_all": True}]
maxlen = 2 if tier == "quick" else 3
for n in range(1, maxlen + 1):
    for t in itertools.product(TOK, repeat=n):
        if n == 1 or tier != "quick":
            for o in OPTS:
                run("".join(t), o, "soup")
        else:
            run("".join(t), OPTS[(t.__len__() + sum(map(len, t))) % 3], "soup")
for _ in range(4000 if tier == "quick" else 150000):
    k = rng.randint(3, 20)
    text = "".join(rng.choice(TOK) for _ in range(k))
    run(text, rng.choice(OPTS), "random-soup")
# line-structured documents: block-level markers at line starts, nested lists / tables / refs
# a link trail followed by a token the parser drops silently, then more word characters; cookies that are kept as
# text (inside <pre>, inside attribute values) whose own arguments contain <nowiki/> or a bracketed word
for t in ("see\thttp://example.org", "\u00a0http://e.org x", "* a\thttps://e.org\n* b", "''i\rhttp://e.org''",
          "{| </hl> class=x\n|-\n| cell\n|}", "{|\n|- </wbr> id=r\n| c\n|}", "{| <hr/> x\n| c\n|}", "{| </br> class=y <b>z\n|-\n|}",
          "[[dog]]s<noinclude/>x", "[[dog]]s<section begin=a/>x y", "[[dog]]<noinclude/>s</section>t", "{|\n[[a]]b|-c\n|}",
          "<pre>{{foo|a<nowiki/>b}}</pre>", "<pre>{{quote|[sic] said}}</pre>", "<span class='{{foo|[x]}}'>y</span>",
          "<pre>[[a|b<nowiki/>c]] {{{1|[d]}}}</pre>", '{| class="{{foo|[x]}}"\n| c\n|}'):
    for o in OPTS_ALL if "OPTS_ALL" in globals() else ({}, {"pre_expand": True}, {"expand_all": True}):
        run(t, o, "fixed-documents")
# tags with quoted attribute values (either kind of quote, apostrophes inside the value) in every line context: plain
# text, headings of all levels, list items, table cells and captions, link text
TAGS_Q = ["<span id='x'>T</span>", '<span title="it\'s">T</span>', "<b class='a b'>x</b> ''i''", "<ref name='n'/>", "<div style=\"a:'b'\">d</div>"]
for tq in TAGS_Q:
    for form in ("%s", "== %s ==", "=== %s ===", "====== %s ======", "* %s", "{|\n| %s\n|}", "{|\n|+ %s\n|}", "[[L|%s]]", "; %s : d",
                 "== a %s b ==\n%s"):
        for o in ({}, {"pre_expand": True}, {"expand_all": True}):
            run(form.replace("%s", tq), o, "quoted-tag-attributes")
# diagnostics raised while a heading is still open
for t in ("== <b>Etymology ==", "=== Noun</span> ===\ntext </b>", "== a\n</div>", "==<i>x==\n{{a|"):
    run(t, {}, "open-heading-diagnostics")
LINE_START = ["* ", "** ", "*: ", "# ", "#* ", ": ", "; ", "{|", "|-", "| ", "|| ", "! ", "!! ", "|+ ", "|}", "*<ref>", "<ref>",
              "</ref>", "== h ==", "=== s ===", "<div>", "</div>", "----", "", " pre", "<pre>", "</pre>", "{{a|", "}}"]
INLINE = ["a", "q", "x [[L]] y", "''i''", "{{a|z}}", "", "<b>b</b>", "[http://e.org t]", "! z", "|| c", "<nowiki></nowiki>"]
for _ in range(3000 if tier == "quick" else 120000):
    k = rng.randint(2, 9)
    doc = "\n".join(rng.choice(LINE_START) + rng.choice(INLINE) for _ in range(k))
    run(doc, rng.choice(OPTS), "line-structured")
# exhaustive short documents over the structurally interesting line forms (list item > ref > table > cell > list ...)
CORE = ["*<ref>", "{|", "|", "** q", "! z", "|-", "|}", "* a", "</ref>"]
for n in range(1, 6 if tier == "quick" else 7):
    for t in itertools.product(CORE, repeat=n):
        if n == 6 and rng.random() > 0.25:
            continue
        run("\n".join(t), {}, "core-lines")
# deep nesting
for tok_open, tok_close in (("<b>", "</b>"), ("[[", "]]"), ("{{a|", "}}"), ("* ", "\n"), ("<div>", "</div>"), ("''", "''")):
    run(tok_open * 100 + "x" + tok_close * 100, {}, "nesting-100")
# deep nesting where cookies are finalized without being parsed: inside <pre> and inside HTML / table attribute values
for depth in (5, 39, 40, 41, 60, 100):
    for tok_open, tok_close in (("{{a|", "}}"), ("[[", "]]"), ("{{{", "}}}"), ("{{#if:x|", "}}")):
        nest = tok_open * depth + "x" + tok_close * depth
        run("<pre>" + nest + "</pre>", {}, f"nesting-{depth}-in-pre")
        run('<span class="' + nest + '">t</span>', {}, f"nesting-{depth}-in-attribute")
        run('{| class="' + nest + '"\n| c\n|}', {}, f"nesting-{depth}-in-table-attribute")
# mutations of pages embedded in the repository's tests
tests = Path(__import__("wikitextprocessor").__file__).resolve().parents[2] / "tests" / "test_parser.py"
pages = []
if tests.exists():
    src = tests.read_text(encoding="utf-8")
    pages = [m.group(1).encode().decode("unicode_escape", "ignore") for m in re.finditer(r'self\.parse\(\s*"[^"]*",\s*"""(.*?)"""', src, re.S)]
    pages += [m.group(1) for m in re.finditer(r'self\.parse\(\s*"[^"]*",\s*"((?:[^"\\]|\\.)*)"', src)]
pages = [p for p in pages if 0 < len(p) < 400]
rng.shuffle(pages)
for p in pages[: (150 if tier == "quick" else 2000)]:
    for _ in range(2 if tier == "quick" else 6):
        i = rng.randrange(len(p) + 1)
        m = rng.choice(["insert", "delete", "dup"])
        if m == "insert":
            q = p[:i] + rng.choice(TOK) + p[i:]
        elif m == "delete":
            j = min(len(p), i + rng.randint(1, 4))
            q = p[:i] + p[j:]
        else:
            j = min(len(p), i + rng.randint(1, 8))
            q = p[:j] + p[i:j] + p[j:]
        run(q, rng.choice(OPTS), "mutated-test-page")
samples.append({"text": "".join(rng.choice(TOK) for _ in range(8))})
mon.stop()
emit({"evaluations": evaluations, "distinct_nontrivial": len(distinct),
      "rule": "distinct input texts (token soups, nesting probes, mutated pages from tests/test_parser.py)",
      "monitored_calls": monitored["calls"],
      "failures": list(failures.values()), "samples": samples,
      "bound": f"all soups of <= {maxlen} tokens over {len(TOK)} tokens, random soups of 3..20 tokens, nesting depth 100 probes, "
               f"{min(len(pages), 150 if tier == 'quick' else 2000)} test pages with single mutations; options {{}}, pre_expand, expand_all; "
               f"the stack contract of the {len(ASSUMED_FNS)} functions the static tier only assumes, and _parser_pop's "
               f"precondition, read at run time on {monitored['calls']} calls"})
