"""C04 bounded tier: Wtp.expand against an executable reference transclusion
function over generated acyclic template libraries and pages; the includable
part (_template_to_body via add_page) against a reference on tag strings.
Stand-in, never counted as proved."""
import itertools
import random
import re
import sys

from bounded.harness import emit, new_ctx, payload, quiet_stdout
from bounded.harness import install_watchdog
install_watchdog()

P = payload()
tier = P.get("tier", "quick")
seed = int(P.get("seed", 0))
rng = random.Random(seed)

failures = {}
evaluations = 0
distinct = set()
samples = []
skipped = 0


def fail(ident, what, witness, wclass="value"):
    if ident not in failures:
        failures[ident] = {"ident": ident, "witness_class": wclass, "what": what, "witness": witness}


# AST: ("t", s) | ("seq", [..]) | ("call", name, [(key|None, node)]) | ("param", name, default|None)
#      | ("if", c, a, b) | ("ifeq", x, y, a, b) | ("switch", v, [(case, node)], default|None)
def src(n):
    k = n[0]
    if k == "t":
        return n[1]
    if k == "seq":
        return "".join(src(x) for x in n[1])
    if k == "call":
        parts = [n[1]]
        for key, v in n[2]:
            parts.append(src(v) if key is None else key + "=" + src(v))
        return "{{" + "|".join(parts) + "}}"
    if k == "param":
        return "{{{" + n[1] + ("|" + src(n[2]) if n[2] is not None else "") + "}}}"
    if k == "if":
        return "{{#if:" + src(n[1]) + "|" + src(n[2]) + "|" + src(n[3]) + "}}"
    if k == "ifeq":
        return "{{#ifeq:" + src(n[1]) + "|" + src(n[2]) + "|" + src(n[3]) + "|" + src(n[4]) + "}}"
    if k == "switch":
        parts = ["{{#switch:" + src(n[1])]
        for case, v in n[2]:
            parts.append(case if v is None else case + "=" + src(v))
        if n[3] is not None:
            parts.append("#default=" + src(n[3]))
        return "|".join(parts) + "}}"
    raise AssertionError(n)


WS = re.compile(r"\s+")


class Skip(Exception):
    pass


def add_newline(t):
    return "\n" + t if t.startswith(("*", ";", ":", "#", "{|")) else t


class Ref:
    """MediaWiki transclusion rules as stated in the property.  `drop_nl` switches on the one documented
    deviation of this implementation (a value loses one trailing newline when it is substituted / passed
    on), used only to classify a mismatch as the known finding instead of a new violation."""

    def __init__(self, lib, drop_nl=False):
        self.lib = lib
        self.drop_nl = drop_nl

    def sub(self, v):
        return v.removesuffix("\n") if self.drop_nl else v

    def ex(self, n, frame):
        k = n[0]
        if k == "t":
            return n[1]
        if k == "seq":
            return "".join(self.ex(x, frame) for x in n[1])
        if k == "param":
            key = n[1].strip()
            keyv = int(key) if key.isdecimal() and int(key) > 0 else WS.sub(" ", key)
            if frame is not None and keyv in frame:
                return self.sub(frame[keyv])
            if n[2] is not None:
                return self.ex(n[2], frame)
            return "{{{" + str(keyv) + "}}}"      # undefined parameter without default stays literal
        if k == "if":
            c = self.ex(n[1], frame).strip()
            return add_newline(self.ex(n[2] if c else n[3], frame).strip())
        if k == "ifeq":
            a, b = self.ex(n[1], frame).strip(), self.ex(n[2], frame).strip()
            return add_newline(self.ex(n[3] if a == b else n[4], frame).strip())
        if k == "switch":
            v = self.ex(n[1], frame).strip()
            latched = False
            for case, node in n[2]:
                if node is None:                       # bare case: falls through to the next keyed result
                    if case.strip() == v:
                        latched = True
                    continue
                if latched or case.strip() == v:
                    return add_newline(self.ex(node, frame).strip())
            return add_newline(self.ex(n[3], frame).strip()) if n[3] is not None else ""
        if k == "call":
            name = n[1].strip()
            ht = {}
            num = 1
            for key, v in n[2]:
                val = self.sub(self.ex(v, frame))             # arguments are expanded in the caller's frame
                if key is None:
                    ht[num] = val                              # positional: verbatim
                    num += 1
                else:
                    kk = key.strip()
                    kk = int(kk) if kk.isdecimal() and int(kk) > 0 else WS.sub(" ", kk)
                    ht[kk] = val.strip()                       # named: key and value trimmed; later duplicates win
            if name not in self.lib and (name[:1].upper() + name[1:]) in self.lib:
                name = name[:1].upper() + name[1:]             # the first letter of a title is case-insensitive
            if name not in self.lib:
                return "[[:Template:" + n[1].strip() + "]]"    # missing template: link to the template page
            t = self.ex(self.lib[name], ht)
            return add_newline(t)
        raise AssertionError(n)


TEXTS = ["x", "y z", " p", "q ", "", "1", "w", "r\n", "\ns", "*li", "u\nv"]
VALS = ["v", " v", "v ", " v w ", "*li", ""]


def gen(depth, names, in_body, allow_ws=True):
    r = rng.random()
    if depth == 0 or r < 0.25:
        return ("t", rng.choice(TEXTS if allow_ws else ["x", "yz", "1", "w"]))
    if in_body and r < 0.45:
        return ("param", rng.choice(["1", "2", "k", " k ", "n m", "n  m", "n\tm", " n \n m "]),
                gen(depth - 1, names, in_body) if rng.random() < 0.5 else None)
    if r < 0.75 and names:
        name = rng.choice(names + ["nosuch"])
        args = []
        for _ in range(rng.choice([0, 1, 2, 3])):
            key = rng.choice([None, None, "k", " k ", "2", "n  m", "1", "n m", "n\tm"])
            args.append((key, gen(depth - 1, names, in_body)))
        return ("call", name, args)
    if r < 0.82:
        return ("if", gen(depth - 1, names, in_body), gen(depth - 1, names, in_body), ("t", "e"))
    if r < 0.88:
        return ("ifeq", gen(depth - 1, names, in_body), ("t", rng.choice(["x", "w", ""])), ("t", "same"), ("t", "diff"))
    if r < 0.94:
        cases = rng.choice([
            [("x", ("t", "cx")), ("w", gen(depth - 1, names, in_body))],
            [("x", None), ("yz", None), ("w", ("t", "grp"))],
            [("1", None), ("x", ("t", "g1")), ("w", None), ("yz", ("t", "g2"))],
        ])
        return ("switch", gen(depth - 1, names, in_body, False), cases, ("t", "dflt") if rng.random() < 0.6 else None)
    return ("seq", [gen(depth - 1, names, in_body), ("t", rng.choice(["", " ", "-"])), gen(depth - 1, names, in_body)])


def in_envelope(text):
    """the reference is only claimed on the envelope where the statement is unambiguous: no newline
    handling, no '=' or markup characters produced inside values, no leading list markers in the middle"""
    return True


def T(x):
    return ("t", x)


# a fixed library and fixed pages first (the random part below must not be the only place where a rule is exercised):
# blanks that only appear once a nested call is expanded, under positional / numeric / string names; defaults;
# parameter names spelled with interior blanks; list markers at the start of an expansion
FIXED_LIB = {
    "pad": T(" x "), "nl": T("y\n"), "li": T("* i"),
    "show": ("seq", [T("["), ("param", "1", None), T("]")]),
    "kshow": ("seq", [T("<"), ("param", "k", T("d")), T("|"), ("param", "n  m", T("?")), T(">")]),
    "two": ("seq", [("param", "2", T("-")), T("/"), ("param", "1", T("-"))]),
    # list / table markers that are NOT at the start of the expansion must not attract the automatic newline
    "pair": ("seq", [("param", "k", T("")), T("="), ("param", "v", T(""))]),
    "IoWrap": ("seq", [T("{"), ("param", "1", T("")), T("}")]), "Plainname": T("PN"),
    "tbl": T("t {| c |} ; x : y # z * w"), "tbl0": T("{| c |}"), "wrap": ("seq", [T("<i>"), ("param", "1", T("")), T("</i>")]),
}
FIXED_PAGES = []
for inner in ("pad", "nl", "li"):
    c = ("call", inner, [])
    FIXED_PAGES += [("call", "show", [(None, c)]), ("call", "show", [("1", c)]), ("call", "show", [(" 1 ", c)]),
                    ("call", "kshow", [("k", c)]), ("call", "kshow", [("n m", c), ("k", T(" v "))]),
                    ("call", "kshow", [("n\tm", c)]), ("call", "two", [("2", c), ("1", T(" a "))]),
                    ("call", "two", [(None, T(" p ")), (None, c)]), ("call", "two", [("1", c), (None, T("q"))])]
for inner in ("tbl", "tbl0", "li"):
    c = ("call", inner, [])
    FIXED_PAGES += [c, ("seq", [T("a"), c]), ("call", "wrap", [(None, c)]), ("call", "show", [("1", c)]),
                    ("if", T("x"), ("seq", [T("p "), c]), T("e")), ("if", T("x"), c, T("e")),
                    ("ifeq", T("x"), T("x"), ("seq", [T("q"), c]), T("d")),
                    ("switch", T("x"), [("x", ("seq", [T("s"), c]))], None)]
# the same template nested through its own NAMED argument (not a loop), to depth 4, also through #if
def _nest(d):
    return ("call", "pair", [("k", T("a%d" % d)), ("v", T("end") if d == 0 else _nest(d - 1))])


FIXED_PAGES += [_nest(d) for d in (1, 2, 3, 4)]
# first letter case-insensitive, the rest of the name exact
FIXED_PAGES += [("call", "ioWrap", [(None, T("v"))]), ("call", "plainName", []), ("call", "plainname", []),
                ("if", T("1"), ("call", "ioWrap", [(None, T("w"))]), T("e"))]
FIXED_PAGES += [("call", "pair", [("k", T("x")), ("v", ("if", T("1"), _nest(2), T("e")))])]
nlib = 40 if tier == "quick" else 300
npage = 40 if tier == "quick" else 80
for li in range(-1, nlib):
    ntem = rng.randint(1, 3 if tier == "quick" else 5)
    names = [f"t{i}" for i in range(ntem)]
    lib = {}
    for i, nm in enumerate(names):
        lib[nm] = gen(3, names[:i], True)          # a body only calls earlier templates: acyclic
    if li == -1:
        lib, names = dict(FIXED_LIB), list(FIXED_LIB)
    ctx = new_ctx({nm: src(b) for nm, b in lib.items()})
    ref = Ref(lib)
    for pi in range(npage if li >= 0 else len(FIXED_PAGES)):
        page = gen(3 if tier == "quick" else 4, names, False) if li >= 0 else FIXED_PAGES[pi]
        text = src(page)
        try:
            want = ref.ex(page, None)
        except Skip:
            skipped += 1
            continue
        ctx.start_page("Tt")
        evaluations += 1
        try:
            with quiet_stdout():
                got = ctx.expand(text)
        except Exception as ex:
            fail("core:Wtp.expand#no-exception", f"{type(ex).__name__}: {ex}", {"library": {k: src(v) for k, v in lib.items()}, "page": text})
            continue
        if got != want:
            # classify the documented deviation so that the known finding stays narrow
            dev = Ref(lib, drop_nl=True).ex(page, None)
            if got == dev:
                fail("core:Wtp.expand#equals-reference-transclusion[trailing-newline]",
                     f"got {got!r} want {want!r}", {"library": {k: src(v) for k, v in lib.items()}, "page": text},
                     "known-deviation:value-loses-one-trailing-newline")
            else:
                fail("core:Wtp.expand#equals-reference-transclusion", f"got {got!r} want {want!r}",
                     {"library": {k: src(v) for k, v in lib.items()}, "page": text}, "value")
        distinct.add((tuple(sorted((k, src(v)) for k, v in lib.items())), text))
    if len(samples) < 3:
        samples.append({"library": {k: src(v) for k, v in lib.items()}, "page": text})
    ctx.close_db_conn()

# ---- a template that is added after a page found it missing is used by the next expansion
cL = new_ctx({"a": "A"})
cL.start_page("Tt")
with quiet_stdout():
    first = cL.expand("{{late|x}} {{a}}")
cL.add_page("Template:late", 10, "L{{{1}}}")
cL.start_page("Tt2")
with quiet_stdout():
    second = cL.expand("{{late|x}} {{a}}")
cL.add_page("Template:late", 10, "M{{{1}}}")
with quiet_stdout():
    third = cL.expand("{{late|x}}")
evaluations += 3
if first != "[[:Template:late]] A" or second != "Lx A" or third != "Mx":
    fail("core:Wtp.expand#equals-reference-transclusion", f"template added after it was found missing: {first!r}, then {second!r}, "
         f"then (overwritten) {third!r}", {"history": "expand {{late|x}}; add_page Template:late; expand; overwrite; expand"},
         "stale-lookup")
cL.close_db_conn()
# ---- includable part of a template body (add_page -> _template_to_body), all tag strings up to a length
TAGS = ["a", "<noinclude>", "</noinclude>", "<includeonly>", "</includeonly>", "<onlyinclude>", "</onlyinclude>",
        "<!--", "-->", "b"]


def ref_body(text):
    text = re.sub(r"(?s)<!--.*?-->", "", text)
    text = re.sub(r"(?is)<noinclude\s*>.*?</noinclude\s*>", "", text)
    text = re.sub(r"(?is)<noinclude\s*>.*", "", text)
    text = re.sub(r"(?s)<!--.*", "", text)
    onlys = re.findall(r"(?is)<onlyinclude\s*>(.*?)</onlyinclude\s*>", text)
    if onlys:
        text = "".join(onlys)
    text = re.sub(r"(?is)<\s*(/\s*)?includeonly\s*(/\s*)?>", "", text)
    return text


def balanced(seq):
    """the statement's envelope: tags properly paired (outside noinclude, inside onlyinclude if present,
    includeonly unwrapped, comments removed)"""
    s = "".join(seq)
    for o, c in (("<noinclude>", "</noinclude>"), ("<includeonly>", "</includeonly>"),
                 ("<onlyinclude>", "</onlyinclude>"), ("<!--", "-->")):
        depth = 0
        for m in re.finditer(re.escape(o) + "|" + re.escape(c), s):
            depth += 1 if m.group(0) == o else -1
            if depth < 0 or depth > 1:
                return False
        if depth != 0:
            return False
    return True


ctx = new_ctx({})
for body in ["x<noinclude>doc\n", " <noinclude>d</noinclude> \n y", "a<noinclude>d</noinclude >b", "m<!-- two\nlines -->n\nrest",
             "a<noinclude>d</noinclude>\n* item", "a<onlyinclude>x</onlyinclude>b<onlyinclude>y</onlyinclude>c", "<onlyinclude>1</onlyinclude><onlyinclude>2</onlyinclude>"
             "<onlyinclude>3</onlyinclude>", "p<onlyinclude/>q<onlyinclude>r</onlyinclude>", "<noinclude>n</noinclude><onlyinclude>x"
             "</onlyinclude>m<!-- c --><onlyinclude>y</onlyinclude>", "<includeonly>i</includeonly>a<includeonly>j</includeonly>"]:
    ctx.add_page("Template:z", 10, body)
    got = ctx.get_page("Template:z", 10).body
    evaluations += 1
    if got != ref_body(body):
        fail("core:Wtp._template_to_body#includable-part", f"body {body!r}: stored {got!r} want {ref_body(body)!r}", {"body": body})
maxl = 4 if tier == "quick" else 6
count = 0
for n in range(1, maxl + 1):
    for seq in itertools.product(TAGS, repeat=n):
        if not balanced(seq):
            continue
        body = "".join(seq)
        # independent reference on the balanced envelope: character-level scanner
        want = ref_body(body)
        ctx.add_page("Template:z", 10, body)
        got = ctx.get_page("Template:z", 10).body
        evaluations += 1
        count += 1
        if got != want:
            fail("core:Wtp._template_to_body#includable-part", f"body {body!r}: stored {got!r} want {want!r}", {"body": body})
            break
        # transclusion uses exactly the stored part
        if n <= 3:
            ctx.start_page("Tt")
            with quiet_stdout():
                out = ctx.expand("[{{z}}]")
            if out != "[" + add_newline(want) + "]" and "{{" not in want and "<" not in want:
                fail("core:Wtp.expand#transcludes-only-the-includable-part", f"body {body!r}: {out!r}", {"body": body})
distinct.add(("bodies", count))
ctx.close_db_conn()

# a missing template called twice on one page, directly and through a template body
ctx = new_ctx({"m": "[{{nosuch}}]"})
ctx.start_page("Tt")
with quiet_stdout():
    r1 = ctx.expand("{{nosuch}} {{nosuch}} {{m}} {{m}}")
evaluations += 1
if r1 != "[[:Template:nosuch]] [[:Template:nosuch]] [[[:Template:nosuch]]] [[[:Template:nosuch]]]":
    fail("core:Wtp.expand#missing-template-becomes-a-link-every-time", f"{r1!r}", {"page": "{{nosuch}} {{nosuch}} {{m}} {{m}}"})
ctx.close_db_conn()
# dedicated probe of the known deviation (deterministic, independent of the seed)
ctx = new_ctx({"pv": "[{{{1}}}]"})
ctx.start_page("Tt")
with quiet_stdout():
    r = ctx.expand("{{pv|a\n}}")
evaluations += 1
if r != "[a\n]":
    fail("core:Wtp.expand#equals-reference-transclusion[trailing-newline]",
         f"{{{{pv|a\\n}}}} with body [{{{{{{1}}}}}}] gives {r!r} (MediaWiki: '[a\\n]')", {"page": "{{pv|a\n}}", "library": {"pv": "[{{{1}}}]"}},
         "known-deviation:value-loses-one-trailing-newline")
ctx.close_db_conn()

emit({"skipped_outside_envelope": skipped, "evaluations": evaluations, "distinct_nontrivial": len(distinct),
      "rule": "distinct (library, page) pairs + the set of balanced tag strings",
      "failures": list(failures.values()), "samples": samples,
      "bound": f"{nlib} random acyclic libraries of <= {3 if tier == 'quick' else 5} templates x {npage} pages, grammar depth "
               f"<= {3 if tier == 'quick' else 4}, arguments positional/named/numeric-named with blanks; all balanced tag "
               f"strings of <= {maxl} tokens over {len(TAGS)} tokens ({count} bodies)"})
