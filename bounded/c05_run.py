"""C05 bounded tier (stand-in, never counted as proved):
 (1) every name in PARSER_FUNCTIONS x generated argument vectors through the real
     call_parser_function: no exception, result is a str;
 (2) #expr token soups (operators in every position): no exception;
 (3) expand() on all template call graphs on <=3 (thorough <=4) templates incl.
     cycles through calls, arguments, defaults and #if branches, and calls
     nested to depth 100: returns str, no exception, wall-clock watchdog, and a
     cycle / excess depth => error element in the output + recorded message;
 (4) detect_expand_template_loop against its spec on all short stacks.
Also used as the replay oracle for refuted safety obligations (mode=replay)."""
import itertools
import random
import signal
import sys
import time
import traceback

from bounded.harness import emit, new_ctx, payload, quiet_stdout

P = payload()
tier = P.get("tier", "quick")
seed = int(P.get("seed", 0))
mode = P.get("mode", "sweep")
rng = random.Random(seed)

from wikitextprocessor import Wtp  # noqa: E402
from wikitextprocessor.core import detect_expand_template_loop  # noqa: E402
from wikitextprocessor.parserfns import PARSER_FUNCTIONS, call_parser_function  # noqa: E402

POOL = ["", " ", "a", "abc", "0", "1", "-1", "5", "²", "1.5", "-", "=", "a=b", "Talk:x", "x/y/z",
        "../..", "%", "1" * 4301, "R", "1,234.5", "now", "@x", "Y", "#default", "\n", "٣", "e", "x" * 50, "@inf", "@1e30",
        "a:b"]
POOL += [s for s in P.get("extra_strings", []) if s not in POOL]
SLOW = {"#time", "#timel", "#dateformat", "#formatdate"}
SKIP = {"#property", "#statements"}   # network-bound (assumed, listed)

failures = {}
evaluations = 0
distinct = set()
samples = []


class Timeout(Exception):
    pass


def _alarm(*a):
    raise Timeout()


signal.signal(signal.SIGALRM, _alarm)


def where(tb):
    """innermost frame inside the package"""
    last = None
    for fs in traceback.extract_tb(tb):
        if "wikitextprocessor" in fs.filename:
            last = fs
    if last is None:
        return "?", 0, ""
    return last.name, last.lineno, (last.line or "").strip()


def record(kind, ident, exc, witness):
    fn, line, src = where(exc.__traceback__)
    wclass = type(exc).__name__
    if isinstance(exc, ValueError) and "Exceeds the limit" in str(exc):
        wclass += ":digit-limit"
    key = (ident, wclass, fn)
    if key not in failures:
        failures[key] = {"ident": f"{ident}", "witness_class": f"{wclass}@{fn}", "what":
                         f"{kind}: {type(exc).__name__}: {str(exc)[:80]} in {fn} line {line}: {src[:80]}",
                         "witness": witness, "function": fn, "line": line, "exception": type(exc).__name__}


def call_pf(ctx, name, args, title="Tt"):
    global evaluations
    evaluations += 1
    ctx.start_page(title)
    signal.alarm(10)
    try:
        with quiet_stdout():
            r = call_parser_function(ctx, name, list(args), lambda x: x)
        if not isinstance(r, str):
            raise TypeError(f"result is {type(r).__name__}, not str")
    finally:
        signal.alarm(0)
    return r


ctx = new_ctx({"a": "A{{{1|}}}"})
ctx.add_page("MediaWiki:msg", 8, "m $1 $2")
ctx.add_page("Talk:x", 1, "talk")

if mode == "replay":
    # look for an input that makes `function` raise `exception` (any line)
    want_fn, want_exc = P["function"], P["exception"]
    names = [n for n, f in PARSER_FUNCTIONS.items()
             if (f[0] if isinstance(f, tuple) else f).__name__ == want_fn] or list(PARSER_FUNCTIONS)
    found = None
    t0 = time.time()
    for name in names[:3]:
        for k in range(0, 4):
            vecs = itertools.product(POOL, repeat=k) if k <= 2 else (
                tuple(rng.choice(POOL) for _ in range(k)) for _ in range(4000))
            for vec in vecs:
                for title in ("Tt", "Talk:x", "Main:y"):
                    try:
                        call_pf(ctx, name, vec, title)
                    except Exception as ex:
                        if type(ex).__name__ == want_exc or want_exc in ("", "AnyException"):
                            fn, line, src = where(ex.__traceback__)
                            found = {"parser_function": name, "args": [a[:60] for a in vec], "title": title,
                                     "exception": f"{type(ex).__name__}: {str(ex)[:100]}", "raised_in": fn,
                                     "line": line, "source": src,
                                     "python": f"Wtp().start_page({title!r}); call_parser_function(ctx, {name!r}, "
                                               f"{[a[:20] for a in vec]!r}, lambda x: x)"}
                            break
                    if title == "Tt" and "PAGENAME" not in name and "SPACE" not in name:
                        break
                if found or time.time() - t0 > 120:
                    break
            if found:
                break
        if found:
            break
    emit({"reproduced": found is not None, "witness": found})
    sys.exit(0)

# ---- (1) parser functions x argument vectors
t_start = time.time()
for name in PARSER_FUNCTIONS:
    if name in SKIP:
        continue
    pool = POOL if name not in SLOW else ["", "Y", "now", "@x", "1" * 20, "²", "@inf", "@1e30", "@-1e30", "@nan"]
    vecs = [()] + [(a,) for a in pool] + [(a, b) for a in pool for b in pool]
    if name in SLOW:
        vecs = vecs[:60]
    n3 = 150 if tier == "quick" else 3000
    vecs += [tuple(rng.choice(pool) for _ in range(rng.randint(3, 5))) for _ in range(n3 if name not in SLOW else 10)]
    titles = ["Tt"] + (["Talk:x", "Main:y", "Template:z", ":q"] if name.isupper() else [])
    for vec in vecs:
        for title in titles:
            try:
                r = call_pf(ctx, name, vec, title)
                distinct.add((name, len(vec), r[:8]))
            except Timeout:
                failures[(name, "timeout")] = {"ident": f"parserfns:{name}#bounded-terminates", "witness_class": "timeout",
                                               "what": f"{name}{vec!r} did not return in 10 s", "witness": [a[:40] for a in vec]}
            except Exception as ex:
                fnobj = PARSER_FUNCTIONS[name]
                fnobj = fnobj[0] if isinstance(fnobj, tuple) else fnobj
                record("parser function", f"parserfns:{fnobj.__name__}#bounded-no-raise", ex,
                       {"parser_function": name, "args": [a[:40] for a in vec], "title": title})
    if len(samples) < 3:
        samples.append({"parser_function": name, "vectors": len(vecs), "example": [a[:10] for a in vecs[-1]]})

# ---- (1b) #time / #timel: every format letter against every kind of timestamp (aware, naive 14-digit, @seconds, local)
FMT = "dDjlNSwzWFmMntLoYyaAgGhHisueIOPTZcrU"
STAMPS = ["", "now", "20130914013636", "@86400", "@0", "2004-02-29", "2007-02-01 12:00", "1 mars 2020", "02/03/2020", "garbage"]
for fnname in ("#time", "#timel"):
    for letter in FMT:
        for ts in STAMPS:
            try:
                call_pf(ctx, fnname, (letter, ts), "Tt")
                call_pf(ctx, fnname, ("x" + letter + letter, ts, "fr"), "Tt")
            except Timeout:
                failures[(fnname, "timeout")] = {"ident": f"parserfns:{fnname}#bounded-terminates", "witness_class": "timeout",
                                                 "what": f"{fnname}|{letter}|{ts} did not return", "witness": [letter, ts]}
            except Exception as ex:
                record("parser function", "parserfns:time_fn#bounded-no-raise", ex,
                       {"parser_function": fnname, "args": [letter, ts], "title": "Tt"})
    distinct.add(("time-letters", fnname))
# formats with escapes and quotes at the edges (backslash last, backslash before a line break, unbalanced quotes)
for fnname in ("#time", "#timel"):
    for fmt_ in ("Y\\", "\\", "\\\n", "d \\", "\\Y\\", 'x\\', '"a', 'a"', '"', '\\"', "xx", "x", "%", "%Y %", "\\%"):
        for ts in ("", "20130914013636", "@0"):
            try:
                call_pf(ctx, fnname, (fmt_, ts), "Tt")
            except Timeout:
                failures[(fnname, "timeout")] = {"ident": f"parserfns:{fnname}#bounded-terminates", "witness_class": "timeout",
                                                 "what": f"{fnname}|{fmt_!r}|{ts} did not return", "witness": [fmt_, ts]}
            except Exception as ex:
                record("parser function", "parserfns:time_fn#bounded-no-raise", ex,
                       {"parser_function": fnname, "args": [fmt_, ts], "title": "Tt"})
# ---- (1c) #lst / #section with section names that contain regular-expression punctuation
ctx.add_page("Langs", 0, "a<section begin=notes (old/>N<section end=notes (old/>b<section begin=C++/>cpp<section end=C++/>"
                         "<section begin=x/>X<section end=x/>")
for sec in ("notes (old", "[draft", "*x*", "a)b", "C++", "x", "\\d", "a|b", "(?i)x", "", "x{2"):
    for fnname in ("#lst", "#section"):
        try:
            call_pf(ctx, fnname, ("Langs", sec), "Tt")
            call_pf(ctx, fnname, ("Nosuch", sec), "Tt")
        except Timeout:
            pass
        except Exception as ex:
            record("parser function", "parserfns:lst_fn#bounded-no-raise", ex,
                   {"parser_function": fnname, "args": ["Langs", sec], "title": "Tt"})
# ---- (2) #expr token soups
TOK = ["1", "2.5", "(", ")", "+", "-", "*", "/", "^", "e", "mod", "round", "and", "or", "not", "=", "<",
       ">=", "!=", "ceil", "ln", "exp", "sqrt", "sin", "abs", "floor", "trunc", "pi", ".", "1e400", "0",
       "acos", "div", "1" * 4301]
soups = [" ".join(t) for k in (1, 2, 3) for t in itertools.product(TOK, repeat=k)] if tier != "quick" else \
        [" ".join(t) for k in (1, 2) for t in itertools.product(TOK, repeat=k)]
soups += [" ".join(rng.choice(TOK) for _ in range(rng.randint(3, 9))) for _ in range(6000 if tier == "quick" else 60000)]
soups += ["(" * 300 + "1" + ")" * 300, "1" + " + 1" * 500, "- " * 400 + "1"]
# huge operands in every binary position (termination)
HUGE = ["1e400", "-1e400", "1e1000000000", "99999999999", "-99999999999", "1e-1000000000"]
BIN = ["round", "e", "^", "*", "/", "mod", "div", "+", "-", "=", "<", "and", "or"]
soups += [f"{a} {op} {b}" for op in BIN for a in HUGE + ["1", "2.5"] for b in HUGE + ["1", "2.5"]]
# the e operator with integer operands at and beyond its exact range (+-400), every kind of mantissa
soups += [f"{a}{sp}e{sp}{b}" for sp in ("", " ") for a in ("0", "10", "7", "1000", "(5-5)", "-0", "2.5")
          for b in ("-400", "-401", "-999999999999999999", "400", "401", "999999999999999999", "-1e18", "(0-10^18)")]
for s in soups:
    try:
        r = call_pf(ctx, "#expr", (s,))
        distinct.add(("#expr", r[:12]))
    except Exception as ex:
        record("#expr", "parserfns:expr_fn#bounded-no-raise", ex, {"expr": s[:120]})
samples.append({"expr_soups": len(soups), "example": soups[len(soups) // 2][:60]})

# ---- (3) template call graphs incl. cycles, depth 100
def bodies(n):
    names = [f"t{i}" for i in range(n)]
    forms = lambda t: [f"{{{{{t}}}}}", f"{{{{{t}|{{{{{{1|}}}}}}}}}}", f"{{{{{{x|{{{{{t}}}}}}}}}}}",
                       f"{{{{{{ {{{{{t}}}}} }}}}}}", f"{{{{{{ {{{{{t}}}}} }}}}}}{{{{{{ {{{{{t}}}}} |d}}}}}}",
                       f"{{{{#if:{{{{{{1|}}}}}}|{{{{{t}}}}}|n}}}}", f"{{{{a|{{{{{t}}}}}}}}}"]
    return names, forms


N_TIMEOUTS = [0]


def expand_checked(ctx, text, ident, witness, expect_error=False, budget=20, start=True, **kw):
    global evaluations
    if N_TIMEOUTS[0] >= 3:
        return None          # non-termination is established (3 witnesses): do not wait 20 s for every further case
    evaluations += 1
    if start:
        ctx.start_page("Tt")
    t0 = time.time()
    signal.alarm(budget)
    try:
        with quiet_stdout():
            out = ctx.expand(text, **kw)
    except Timeout:
        N_TIMEOUTS[0] += 1
        failures[(ident, "timeout")] = {"ident": ident + "#bounded-terminates", "witness_class": "timeout",
                                        "what": f"expand did not return within {budget}s", "witness": witness}
        return None
    except Exception as ex:
        record("expand", ident + "#bounded-no-raise", ex, witness)
        return None
    finally:
        signal.alarm(0)
    if not isinstance(out, str):
        failures[(ident, "type")] = {"ident": ident + "#returns-str", "witness_class": "type", "what": repr(out)[:80],
                                     "witness": witness}
    if expect_error:
        rec = ctx.to_return()
        if 'class="error"' not in out or not (rec["errors"] or rec["warnings"]):
            failures[(ident, "inband")] = {
                "ident": ident + "#cycle-or-depth-gives-error-element-and-record", "witness_class": "no-error-element",
                "what": f"output {out[:80]!r}, errors={len(rec['errors'])} warnings={len(rec['warnings'])}",
                "witness": witness}
    return out


nmax = 2 if tier == "quick" else 3
for n in range(1, nmax + 1):
    names, forms = bodies(n)
    per_t = []
    for t in names:
        opts = ["x"]
        for callee in names:
            opts += forms(callee)
        per_t.append(opts)
    combos = list(itertools.product(*per_t))
    if len(combos) > (400 if tier == "quick" else 6000):
        combos = rng.sample(combos, 400 if tier == "quick" else 6000)
    for combo in combos:
        lib = {"a": "A{{{1|}}}"}
        for t, body in zip(names, combo):
            lib[t] = body
        c2 = new_ctx(lib)
        # is there a cycle reachable from t0 when the argument/default is empty?
        edges = {t: [u for u in names if "{{" + u in b] for t, b in zip(names, combo)}
        seen, stack, cyc = set(), ["t0"], False

        def dfs(u, path):
            global cyc
            for v in edges.get(u, []):
                if v in path:
                    cyc = True
                else:
                    dfs(v, path | {v})
        dfs("t0", {"t0"})
        for page in ("{{t0}}", "{{t0|1}}"):
            # a cycle guarded by #if or by a supplied default may legitimately not be entered: only
            # unconditional cycles must produce the error element
            uncond = cyc and all(("#if" not in b and "{{{x|" not in b and "{{{ " not in b) for b in combo)
            expand_checked(c2, page, "core:Wtp.expand", {"library": lib, "page": page}, expect_error=uncond)
        distinct.add(("graph", combo))
        c2.close_db_conn()
# nesting to depth 100 and beyond
c3 = new_ctx({"a": "A{{{1|}}}", "id": "{{{1}}}"})
for depth in (5, 50, 99, 100, 101, 150):
    text = "{{id|" * depth + "x" + "}}" * depth
    out = expand_checked(c3, text, "core:Wtp.expand", {"page": f"{{{{id|...x}}}} nested {depth}"}, expect_error=False)
    distinct.add(("depth", depth))
    if out is not None and depth <= 30 and out != "x":
        failures[("depth", depth)] = {"ident": "core:Wtp.expand#nested-calls-expand", "witness_class": "value",
                                      "what": f"depth {depth}: {out[:60]!r}", "witness": {"depth": depth}}
c4 = new_ctx({"r": "{{r}}", "p": "{{q}}", "q": "{{p}}", "deep": "{{deep|{{{1|}}}x}}",
              "an": "{{{ {{an}} }}}{{{ {{an}} |d}}}", "ad": "{{{x| {{ad}} }}}{{{y|{{ad}}}}}"})
for page in ("{{r}}", "{{p}}", "{{deep}}", "{{r}} {{r}} {{p}}", "{{an}}", "{{ad}}"):
    expand_checked(c4, page, "core:Wtp.expand", {"page": page, "library": "r->r, p<->q, deep->deep"}, expect_error=True)

# ---- (3a') redirects among templates and pages: cycles, self-redirects, rings, chains, dangling targets
c6 = new_ctx({"a": "A{{{1|}}}"})
for src_, dst_ in (("ra", "rb"), ("rb", "ra"), ("rs", "rs"), ("r1", "r2"), ("r2", "r3"), ("r3", "r1"), ("rd1", "rd2"), ("rd2", "a"),
                   ("rx", "nosuch")):
    c6.add_page("Template:" + src_, 10, None, redirect_to="Template:" + dst_)
for src_, dst_ in (("Pa", "Pb"), ("Pb", "Pa"), ("Ps", "Ps"), ("Pc", "Template:ra")):
    c6.add_page(src_, 0, None, redirect_to=dst_)
c6.db_conn.commit()
for page in ("{{ra}}", "{{rs}}", "{{r1}} {{r2}}", "{{rd1|x}}", "{{rx}}", "{{:Pa}}", "{{:Ps}} {{:Pc}}", "{{PAGESIZE:Pa}} {{PAGESIZE:Ps}}",
             "{{#if:x|{{ra}}|n}}", "{{a|{{rs}}}}", "{{#ifexist:Template:ra|y|n}} {{#ifexist:Pa|y|n}}", "{{#ifeq:{{r1}}|x|s|d}}"):
    expand_checked(c6, page, "core:Wtp.expand", {"page": page, "library": "redirect cycles ra<->rb, rs->rs, r1->r2->r3->r1, Pa<->Pb"},
                   expect_error=False)
    distinct.add(("redirects", page))

# ---- (3b) option combinations, several expansions per started page
c5 = new_ctx({"a": "A{{{1|}}}", "pf": "{{#if:{{{1|}}}|y|n}}", "inv": "{{#invoke:m|f}}"},
             parser_function_aliases={"#invoque": "#invoke"})
PAGES = ["{{#invoke:m|f}} {{#invoke:m|g}} {{a}}", "{{#invoque:m|f}} {{a|x}} {{#invoque:m|f}}", "{{inv}} {{inv}} {{pf|1}}",
         "{{a|{{#invoke:m|f}}}} {{lc:X}}", "{{#if:x|{{#invoke:m}}|n}} {{#invoke}} {{a}}", "{{pf}} {{nosuch|{{a}}}}"]
for pfn, inv, pre in itertools.product([True, False], repeat=3):
    if inv and pfn:
        continue    # would start the Lua sandbox, whose libraries are absent offline
    sels = [{}] if not pre else [{}, {"templates_to_not_expand": {"zz"}}, {"templates_to_expand": {"a"}},
                                 {"templates_to_expand": {"a", "inv"}, "templates_to_not_expand": {"pf"}},
                                 {"templates_to_expand": set(), "templates_to_not_expand": set()}]
    for page, sel in itertools.product(PAGES, sels):
        c5.start_page("Tt")
        for rep in range(3 if not sel else 1):
            expand_checked(c5, page, "core:Wtp.expand",
                           {"page": page, "options": dict(expand_parserfns=pfn, expand_invoke=inv, pre_expand=pre,
                                                          **{k: sorted(v) for k, v in sel.items()}),
                            "repetition": rep}, start=False,
                           expand_parserfns=pfn, expand_invoke=inv, pre_expand=pre, **sel)
        distinct.add(("opts", page, pfn, inv, pre, str(sorted(sel))))

# ---- (4) detect_expand_template_loop vs spec on all short stacks
def spec_loop(stack):
    n = len(stack)
    if n < 2 or stack[-1] not in stack[:-1]:
        return False
    for i in range(n):
        suf = stack[i:]
        for p in range(1, len(suf) // 2 + 1):
            if len(suf) % p == 0 and not suf[0].startswith("ARGVAL-") and suf[:p] * (len(suf) // p) == suf:
                return True
    return False


alpha = ["a", "b", "ARGVAL-1", "ARG-NAME", "ARGNAME"]
for n in range(0, 7 if tier == "quick" else 9):
    for st in itertools.product(alpha, repeat=n):
        evaluations += 1
        try:
            got = detect_expand_template_loop(list(st))
        except Exception as ex:
            record("detect_expand_template_loop", "core:detect_expand_template_loop#bounded-no-raise", ex, list(st))
            continue
        if got != spec_loop(list(st)):
            failures[("loopspec", st)] = {"ident": "core:detect_expand_template_loop#equals-spec",
                                          "witness_class": "value", "what": f"{list(st)} -> {got}",
                                          "witness": list(st)}
            break
distinct.add(("loopspec", "all stacks"))

emit({"evaluations": evaluations, "distinct_nontrivial": len(distinct),
      "rule": "distinct (parser function, arity, result prefix) triples + distinct #expr results + distinct template "
              "call graphs; arguments from a pool of 28 strings (empty, blanks, non-numeric, negative, superscript and "
              "non-ASCII digits, 4301-digit numeral, operators), exhaustive to arity 2 then seeded-random",
      "failures": list(failures.values()), "samples": samples,
      "bound": f"arity<=2 exhaustive over {len(POOL)} strings, arity 3-5 sampled; #expr soups len<=2/3 exhaustive over "
               f"{len(TOK)} tokens + random to 9; all call graphs on <= {nmax} templates (sampled above the cap); "
               "network-bound functions (#property, #statements) skipped",
      "secs": round(time.time() - t_start, 1)})
