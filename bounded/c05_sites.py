"""Site drivers for C05 replay: feed a witness string to the real code at a
given conversion site through the nearest reachable entry point."""
import json
import sys

from bounded.harness import emit, new_ctx, payload, quiet_stdout

P = payload()
site = P["site"]
witnesses = P.get("witnesses", []) + ["²", "1" * 4301]

from wikitextprocessor.parserfns import call_parser_function  # noqa: E402


def drive(w):
    ctx = new_ctx({"a": "A"})
    ctx.start_page("Tt")
    if site == "expand_args":
        return ctx.expand("{{{%s}}}" % w)
    if site == "expand_recurse":
        return ctx.expand("{{a|%s=x}}" % w)
    if site == "template_parameters":
        return ctx.parse("{{PAGENAME|%s=x}}" % w).children[0].template_parameters
    if site == "call_parser_function":
        return call_parser_function(ctx, "#categorytree", ["%s=x" % w], lambda x: x)
    if site == "int_fn":
        ctx.add_page("MediaWiki:m", 8, "a $%s b" % w)
        return ctx.expand("{{int:m}}")
    if site in ("make_frame", "recurse"):
        from wikitextprocessor import luaexec
        ctx.lua = luaexec.lupa.LuaRuntime()          # bare runtime: the Scribunto sandbox libraries are absent offline
        if site == "recurse":
            return luaexec.mw_text_jsondecode(ctx, json.dumps({w: 1}), 0)
        ctx.lua_env_stack.append(ctx.lua.table())     # skip sandbox initialisation
        ctx.lua_invoke = lambda *a: (True, "ok")      # stub for the Lua-side entry point
        return luaexec.call_lua_sandbox(ctx, ["m", "f", "%s=x" % w], lambda x: x, None, None)
    raise KeyError(site)


res = None
for w in witnesses:
    try:
        with quiet_stdout():
            drive(w)
    except KeyError:
        raise
    except Exception as ex:
        import traceback
        tb = traceback.extract_tb(ex.__traceback__)
        inner = [f for f in tb if "wikitextprocessor" in f.filename]
        res = {"input": w[:30] + ("..." if len(w) > 30 else ""), "input_length": len(w),
               "exception": f"{type(ex).__name__}: {str(ex)[:90]}",
               "raised_in": inner[-1].name if inner else "?", "line": inner[-1].lineno if inner else 0}
        break
emit({"reproduced": res is not None, "witness": res, "site": site})
