"""C06 bounded tier, Lua side: a hostile module from the page store, run through {{#invoke:}} in the real sandbox,
looks for host capabilities along every route it has -- its globals, _G, require() and _cached_mod() of the host's
library names, the package table, the environment of a mw.loadData module, the string metatable -- and tries to read a
planted file with whatever it finds.  The Scribunto `ustring` library is absent offline: a minimal stand-in is served
for that one name (stated in the evidence); everything else is the repository's own Lua code.  Stand-in, bounded."""
import tempfile
from pathlib import Path

USTRING_STUB = """
local u = {}
for k, v in pairs(string) do u[k] = v end
u.codepoint = string.byte
u.char = string.char
u.toNFC = function(s) return s end
u.toNFD = function(s) return s end
return u
"""

PROBE = r"""
local p = {}
local HOST_NAMES = {"io", "os", "python", "_G", "package", "debug", "ffi", "jit", "bit", "lupa", "coroutine", "string",
                    "table", "math", "utf8", "jit.opt", "jit.util", "string.buffer", "table.new"}
local BAD_GLOBALS = {"io", "loadstring", "load", "dofile", "loadfile", "python", "getfenv", "setfenv", "newproxy", "module",
                     "jit", "ffi", "collectgarbage", "gcinfo"}
local OS_OK = {clock = true, date = true, difftime = true, time = true}
local DEBUG_OK = {traceback = true}

local function look(out, route, G, secret)
    if type(G) ~= "table" then return end
    for _, n in ipairs(BAD_GLOBALS) do
        local ok, v = pcall(function() return G[n] end)
        if ok and v ~= nil then out[#out + 1] = route .. "." .. n .. " is a " .. type(v) end
    end
    local ok, o = pcall(function() return G.os end)
    if ok and type(o) == "table" then
        for k, _ in pairs(o) do
            if not OS_OK[k] then out[#out + 1] = route .. ".os." .. tostring(k) .. " is reachable" end
        end
    end
    local ok2, d = pcall(function() return G.debug end)
    if ok2 and type(d) == "table" then
        for k, _ in pairs(d) do
            if not DEBUG_OK[k] then out[#out + 1] = route .. ".debug." .. tostring(k) .. " is reachable" end
        end
    end
    local ok3, pk = pcall(function() return G.package end)
    if ok3 and type(pk) == "table" then
        for _, n in ipairs({"loadlib", "searchpath", "cpath", "path", "preload", "searchers"}) do
            if pk[n] ~= nil then out[#out + 1] = route .. ".package." .. n .. " is reachable" end
        end
        if type(pk.loaded) == "table" then
            for _, n in ipairs({"io", "os", "python", "_G", "package", "ffi"}) do
                local v = pk.loaded[n]
                if v ~= nil and n == "os" and type(v) == "table" and v.execute == nil and v.getenv == nil then v = nil end
                if v ~= nil and n == "_G" and type(v) == "table" and v.io == nil and v.loadstring == nil then v = nil end
                if v ~= nil and n == "package" and type(v) == "table" and v.loadlib == nil then v = nil end
                if v ~= nil then out[#out + 1] = route .. ".package.loaded." .. n .. " is a host library" end
            end
        end
    end
    -- behaviour: read the planted file through whatever `io` is there
    local ok4, i = pcall(function() return G.io end)
    if ok4 and type(i) == "table" and i.open then
        local f = i.open(secret, "r")
        if f then out[#out + 1] = route .. ".io.open READ<" .. f:read("*a") .. ">"; f:close() end
    end
end

local function via(out, route, fn, secret)
    for _, name in ipairs(HOST_NAMES) do
        local ok, m = pcall(fn, name)
        if ok and m ~= nil then
            if name == "io" or name == "python" or name == "ffi" or name == "lupa" or name == "jit" then
                out[#out + 1] = route .. "('" .. name .. "') returns a " .. type(m)
                if name == "io" and type(m) == "table" and m.open then
                    local f = m.open(secret, "r")
                    if f then out[#out + 1] = route .. "('io').open READ<" .. f:read("*a") .. ">"; f:close() end
                end
            elseif name == "os" and type(m) == "table" then
                for k, _ in pairs(m) do
                    if not OS_OK[k] then out[#out + 1] = route .. "('os')." .. tostring(k) .. " is reachable" end
                end
            elseif name == "_G" then
                look(out, route .. "('_G')", m, secret)
            elseif name == "package" and type(m) == "table" then
                look(out, route .. "('package') as G", {package = m}, secret)
            elseif name == "debug" and type(m) == "table" then
                for k, _ in pairs(m) do
                    if not DEBUG_OK[k] then out[#out + 1] = route .. "('debug')." .. tostring(k) .. " is reachable" end
                end
            end
        end
    end
end

function p.scan(frame)
    local secret = frame.args[1]
    local out = {}
    look(out, "globals", _G, secret)
    look(out, "_G._G", rawget(_G, "_G"), secret)
    via(out, "require", require, secret)
    local cm = rawget(_G, "_cached_mod")
    if type(cm) == "function" then via(out, "_cached_mod", cm, secret) end
    -- the environment a data module is given
    local okd, d = pcall(mw.loadData, "Module:hostile/data")
    if okd and type(d) == "table" then
        look(out, "loadData-env", d.globals, secret)
        look(out, "loadData-env._G", d.g2, secret)
        if d.found ~= nil and d.found ~= "" then out[#out + 1] = "loadData module saw: " .. tostring(d.found) end
    end
    -- a module loaded by require() from the page store
    local okr, r = pcall(require, "Module:hostile/lib")
    if okr and type(r) == "table" then look(out, "required-module-env", r.globals, secret) end
    -- the string metatable
    local mt = getmetatable("")
    if type(mt) == "table" and type(mt.__index) == "table" then
        for _, n in ipairs({"io", "os", "loadstring", "load"}) do
            if mt.__index[n] ~= nil then out[#out + 1] = "string metatable exposes " .. n end
        end
    end
    if #out == 0 then return "CONFINED" end
    return table.concat(out, "\n")
end

return p
"""

PROBE_DATA = r"""
local found = {}
for _, n in ipairs({"io", "loadstring", "load", "dofile", "python"}) do
    if _G[n] ~= nil then found[#found + 1] = "_G." .. n end
end
return { globals = _G, g2 = _G._G, found = table.concat(found, " ") }
"""

PROBE_LIB = "return { globals = _G }\n"


def run(fail, quiet_stdout):
    """returns (evaluations, note)"""
    from wikitextprocessor import Wtp, luaexec
    stubbed = []
    orig_loader = luaexec.lua_loader

    def loader(ctx, modname):
        r = orig_loader(ctx, modname)
        if r is None and modname == "ustring:ustring":
            stubbed.append(modname)
            return USTRING_STUB
        return r
    luaexec.lua_loader = loader
    n = 0
    tmp = Path(tempfile.mkdtemp(prefix="verif_c06lua_"))
    try:
        (tmp / "secret.txt").write_text("HOSTSECRET")
        with quiet_stdout():
            ctx = Wtp(db_path=tmp / "p.db", quiet=True)
        ns = ctx.NAMESPACE_DATA["Module"]["id"]
        ctx.add_page("Module:hostile", ns, PROBE, model="Scribunto")
        ctx.add_page("Module:hostile/data", ns, PROBE_DATA, model="Scribunto")
        ctx.add_page("Module:hostile/lib", ns, PROBE_LIB, model="Scribunto")
        ctx.add_page("Module:boom", ns, "local p = {}\nfunction p.f() error('boom') end\nreturn p", model="Scribunto")
        ctx.db_conn.commit()
        for title, pre in (("First page", None), ("Second page", None), ("After an error", "{{#invoke:boom|f}}")):
            ctx.start_page(title)
            with quiet_stdout():
                if pre:
                    ctx.expand(pre)
                out = ctx.expand("{{#invoke:hostile|scan|%s}}" % (tmp / "secret.txt"))
            n += 1
            if out.strip() == "CONFINED":
                continue
            if "Lua execution error" in out or "Lua timeout" in out or "error" in out.lower() and "reachable" not in out \
                    and "returns a" not in out and " is a " not in out:
                fail("c06:lua-sandbox#probe-module-runs", f"page {title!r}: the probe module did not run: {out[:300]!r}",
                     {"page": title}, "harness")
                continue
            for line in out.splitlines():
                line = line.strip()
                if not line:
                    continue
                route = line.split(" ")[0]
                fail(f"c06:lua-sandbox#host-capability-unreachable[{route}]",
                     f"a module from the page store, page {title!r}: {line[:200]}", {"page": title, "finding": line[:300]}, "lua-escape")
        ctx.close_db_conn()
    except Exception as ex:
        fail("c06:lua-sandbox#probe-module-runs", f"{type(ex).__name__}: {ex}", {}, "harness")
    finally:
        luaexec.lua_loader = orig_loader
        import shutil
        shutil.rmtree(tmp, ignore_errors=True)
    note = ("Lua side: a hostile page module run through #invoke on 3 pages (first start, re-initialisation, after a Lua error) "
            "looks for io/os/python/loadstring/package.loadlib/debug along its globals, _G, require() and _cached_mod() of "
            f"{19} host library names, the environments of a mw.loadData module and of a required page module, and the "
            "string metatable, and tries to read a planted file"
            + ("; the absent Scribunto ustring library is replaced by a minimal stand-in" if stubbed else ""))
    return n, note
