"""C06 bounded tier, Python boundary only: lua_loader path confinement on path
soups (every file opened must lie under the package's lua directory), the
attribute filter on a bare LuaRuntime, and what the values handed to Lua expose."""
import itertools
import os
import random
import sys
import tempfile
from functools import partial
from pathlib import Path

from bounded.harness import emit, new_ctx, payload, quiet_stdout

P = payload()
tier = P.get("tier", "quick")
seed = int(P.get("seed", 0))
rng = random.Random(seed)

from wikitextprocessor import luaexec  # noqa: E402

failures = {}
evaluations = 0
distinct = set()
samples = []


def fail(ident, what, witness, wclass="value"):
    if ident not in failures:
        failures[ident] = {"ident": ident, "witness_class": wclass, "what": what, "witness": witness}


ctx = new_ctx({})
LUA_DIR = Path(str(luaexec.LUA_DIR)).resolve()
tmp = tempfile.mkdtemp(prefix="verif_c06_")
secret = Path(tmp) / "secret.lua"
secret.write_text("return 'SECRET'")
rel_to_secret = os.path.relpath(secret.with_suffix(""), LUA_DIR)
rel_parts = rel_to_secret.split(os.sep)

opened = []
orig_open = Path.open


def spy_open(self, *a, **k):
    opened.append(Path(str(self)))
    return orig_open(self, *a, **k)


Path.open = spy_open
try:
    SEG = ["..", ".", "...", "", "a", "mw", "\x01", " ", ":", "//", "\n..", ".\x01.", ".\t.", "..:", "\\", "..\\"]
    names = ["/" + str(secret.with_suffix("")), str(secret.with_suffix("")), "//" + str(secret.with_suffix("")),
             rel_to_secret, rel_to_secret.replace("..", ".\x01."), rel_to_secret.replace("/", ":"),
             rel_to_secret.replace("..", "...."), " " + rel_to_secret, rel_to_secret.replace("..", ". ."),
             "\x00/" + str(secret.with_suffix("")), ":" + str(secret.with_suffix("")), "mw", "ustring", "_sandbox_phase1",
             "\\" + str(secret.with_suffix("")), str(secret.with_suffix("")).replace("/", "\\"),
             "\\" + str(secret.with_suffix("")).lstrip("/"), rel_to_secret.replace("/", "\\"), "\\\\" + str(secret.with_suffix("")),
             "a\\..\\" + rel_to_secret, "\\/" + str(secret.with_suffix("")), "\t" + str(secret.with_suffix("")), "%2e%2e/" + rel_to_secret]
    k = 3 if tier == "quick" else 4
    for n in range(1, k + 1):
        for t in itertools.product(SEG, repeat=n):
            names.append("/".join(t) + "/" + "/".join(rel_parts[-2:]))
    for _ in range(300 if tier == "quick" else 5000):
        parts = list(rel_parts)
        for i in range(len(parts)):
            if parts[i] == ".." and rng.random() < 0.6:
                parts[i] = rng.choice(["..", ".\x01.", ". .", "...", ".\n.", "..\x02", "\x03.."])
        names.append(rng.choice(["", "/", "./", ":"]) + rng.choice(["/", ":", "//"]).join(parts))
    # the same names behind the local Module: prefix (as #invoke and require('Module:...') write them), in every
    # spelling of the prefix
    base_names = list(names) if tier != "quick" else names[:25] + rng.sample(names[25:], 400)
    ns_name = ctx.NAMESPACE_DATA["Module"]["name"]
    for pre in (ns_name + ":", ns_name.lower() + ":", ns_name + ": ", ns_name + ":/", ns_name + "::"):
        names += [pre + n_ for n_ in (base_names if pre == ns_name + ":" else base_names[:25])]
    for name in names:
        del opened[:]
        evaluations += 1
        try:
            data = luaexec.lua_loader(ctx, name)
        except Exception as ex:
            fail("luaexec:lua_loader#no-exception", f"{type(ex).__name__}: {ex}", {"modname": name}, type(ex).__name__)
            continue
        for p in opened:
            try:
                rp = p.resolve()
            except Exception:
                rp = p
            if LUA_DIR not in rp.parents and rp != LUA_DIR:
                fail("luaexec:lua_loader#opens-only-files-under-the-lua-directory",
                     f"modname {name!r} opened {rp}", {"modname": name, "opened": str(rp)}, "escape")
        if data is not None and "SECRET" in data:
            fail("luaexec:lua_loader#opens-only-files-under-the-lua-directory",
                 f"modname {name!r} returned the content of {secret}", {"modname": name}, "escape")
        distinct.add(name)
finally:
    Path.open = orig_open
samples.append({"modname": names[4]})

# attribute filter on a runtime constructed exactly like initialize_lua does (bare: no sandbox libraries)
lupa = luaexec.lupa
import inspect
src = inspect.getsource(luaexec.initialize_lua)
ns = {}
flt_src = src[src.index("    def filter_attribute_access"):src.index("    lua = lupa.LuaRuntime")]
import textwrap
exec("from typing import Any\nfrom functools import partial\n" + textwrap.dedent(flt_src), ns)
flt = ns["filter_attribute_access"]
lua = lupa.LuaRuntime(unpack_returned_tuples=True, register_eval=False, attribute_filter=flt)
# preferably the runtime that initialize_lua itself builds (it is assigned to ctx.lua before the sandbox
# libraries, which are absent offline, are loaded): this is the real filter closure, state included
try:
    with quiet_stdout():
        luaexec.initialize_lua(ctx)
except Exception:
    pass
if ctx.lua is not None:
    lua = ctx.lua
    real_runtime = True
else:
    real_runtime = False
getter = lua.eval("function(o, n) return o[n] end")


class Probe:
    def __init__(self):
        self._hidden = 1
        self.visible = 2
        self.__dunder__ = 3


for name, expect_ok in (("visible", True), ("_hidden", False), ("__dunder__", False), ("__class__", False), ("__dict__", False)):
    evaluations += 1
    try:
        getter(Probe(), name)
        ok = True
    except Exception:
        ok = False
    if ok != expect_ok:
        fail("luaexec:filter_attribute_access#denies-underscore-names", f"attribute {name!r}: allowed={ok}", {"attr": name})
evaluations += 1
if "python" in list(lua.globals().keys()) and lua.eval("python and python.eval") is not None:
    fail("luaexec:initialize_lua#register_eval-is-off", "python.eval is reachable in a runtime built with these options", {})

# what do the values handed to Lua expose through *public* attributes?
helper = partial(luaexec.get_page_info, ctx)
# probe the same attribute on a non-partial helper first: the filter's answer must not depend on history
try:
    getter(luaexec.fetch_language_name, "args")
except Exception:
    pass
try:
    getter(Probe(), "args")
except Exception:
    pass
evaluations += 1
try:
    leaked = getter(helper, "args")
    reach = leaked is not None and any(x is ctx for x in leaked)
except Exception:
    reach = False
if reach:
    fail("luaexec:call_set_functions#helpers-do-not-expose-the-context",
         "functools.partial helpers handed to Lua expose the Wtp context through the public attribute `args` "
         "(allowed by the attribute filter): getter(partial(get_page_info, ctx), 'args')[0] is ctx",
         {"helper": "partial(get_page_info, ctx)", "attribute": "args"}, "partial.args-exposes-ctx")
# ---- the error channel: pcall() hands a module the Python exception object of a failing helper; everything
# reachable from it through attributes the filter allows must be an immutable scalar, a tuple of such, another
# exception, a value the module passed in itself, or a bound method of one of those
if ctx.lua is None:
    ctx.lua = lua
# an interwiki table as init_interwiki_map() would have stored it (no network here)
ctx.db_conn.execute("CREATE TABLE IF NOT EXISTS interwiki_maps (prefix TEXT PRIMARY KEY, url TEXT, protorel INTEGER, local INTEGER)")
for row in (("s", "https://en.wikisource.org/wiki/$1", 1, 1), ("w", "https://en.wikipedia.org/wiki/$1", 0, 1),
            ("ext", "https://example.org/$1", 0, 0)):
    ctx.db_conn.execute("INSERT OR REPLACE INTO interwiki_maps VALUES(?, ?, ?, ?)", row)
ctx.db_conn.commit()
cap = []
luaexec.call_set_functions(ctx, cap.append)
helpers_tbl = cap[0]
mkpool = lua.eval("""function()
  local t2 = {1, startswith = function() return false end}
  local evil = {replace = function() return t2 end}
  return {false, 0, -1, 1e308, "", "x", "a\\0b", {}, evil, function() end, true, string.rep("z", 5000), "Template:x",
          '{"0": {"a": 1}, "1": [1, 2], "00": [3], "k": {"0": {}}}', '[{"0": [1]}, {"2": {"x": null}}]', '{"a": 1', "local", "!local"}
end""")
pool_t = mkpool()
pool = [None] + [pool_t[i] for i in range(1, 19)]
lpcall = lua.eval("function(f, a, b, c, n) if n == 0 then return pcall(f) elseif n == 1 then return pcall(f, a) "
                  "elseif n == 2 then return pcall(f, a, b) else return pcall(f, a, b, c) end end")
LUA_TYPES = tuple(getattr(lupa, n) for n in ("_LuaTable", "_LuaFunction", "_LuaObject") if hasattr(lupa, n))
if not LUA_TYPES:
    LUA_TYPES = (type(pool_t), type(lpcall))
SCALARS = (type(None), bool, int, float, str, bytes)
import types as _types
METHODS = (_types.BuiltinFunctionType, _types.MethodType, _types.MethodWrapperType)


def walk_error(e):
    """returns (path, type name) of the first reachable Python object that is not allowed, else None"""
    todo = [(e, "e")]
    seen_ids = set()
    while todo:
        obj, path = todo.pop()
        if id(obj) in seen_ids:
            continue
        seen_ids.add(id(obj))
        if isinstance(obj, SCALARS) or isinstance(obj, LUA_TYPES):
            continue
        if isinstance(obj, tuple):
            for i, x in enumerate(obj):
                todo.append((x, f"{path}[{i}]"))
            continue
        if isinstance(obj, METHODS):
            owner = getattr(obj, "__self__", None)
            if isinstance(owner, SCALARS + (tuple, BaseException)) or isinstance(owner, type):
                continue
            return path, type(obj).__name__
        if isinstance(obj, BaseException):
            for name in dir(obj):
                if name.startswith("_"):
                    continue
                try:
                    v = getter(obj, name)          # through the runtime: the attribute filter decides
                except Exception:
                    continue
                todo.append((v, f"{path}.{name}"))
            continue
        return path, type(obj).__name__
    return None


# exception objects of the kinds helpers raise in the field (network down, hostile arguments): nothing may be
# reachable from them, whatever they carry
class _Req:            # stands for requests.PreparedRequest / urllib3 pool objects carried by connection errors
    def send(self):
        return "capability"


_probe_errors = [KeyError(ctx), AttributeError("no attribute"), OSError(2, "x", str(tmp)), ValueError(Path(tmp)),
                 RuntimeError(_Req())]
try:
    _probe_errors[1].obj = ctx            # what CPython records for a failed attribute access on the context
except Exception:
    pass
_ce = ConnectionError("unreachable")
_ce.request = _Req()
_ce.response = None
_probe_errors.append(_ce)
for _e in _probe_errors:
    evaluations += 1
    bad = walk_error(_e)
    if bad is not None:
        fail("luaexec:filter_attribute_access#exception-objects-expose-nothing",
             f"a {type(_e).__name__} handed to Lua exposes a Python object of type {bad[1]} at {bad[0]}",
             {"exception": type(_e).__name__, "path": bad[0]}, f"{bad[1]}@{type(_e).__name__}")

def walk_result(v, path="", depth=0):
    """Lua tables are walked (their values may be Python objects put there by the helper)"""
    if isinstance(v, SCALARS):
        return None
    if isinstance(v, LUA_TYPES):
        if depth < 6 and hasattr(v, "items"):
            try:
                for k_, x_ in list(v.items())[:50]:
                    b = walk_result(x_, f"{path}[{k_!r}]", depth + 1)
                    if b is not None:
                        return b
            except Exception:
                pass
        return None
    if isinstance(v, tuple):
        for i_, x_ in enumerate(v):
            b = walk_result(x_, f"{path}[{i_}]", depth + 1)
            if b is not None:
                return b
        return None
    return path, type(v).__name__


nerr = 0
skipped_helpers = []
for hname in sorted(helpers_tbl.keys()):
    if "wikibase" in hname:
        skipped_helpers.append(hname)      # these reach the network (absent here)
        continue
    h = helpers_tbl[hname]
    for n in range(0, 3 if tier == "quick" else 4):
        combos = itertools.product(pool, repeat=n)
        for args in combos:
            if n == 3 and rng.random() > 0.3:
                continue
            a = list(args) + [None] * 3
            evaluations += 1
            try:
                with quiet_stdout():
                    r = lpcall(h, a[0], a[1], a[2], n)
            except Exception as ex:
                r = (False, ex)
            if isinstance(r, tuple) and r and r[0] is True:
                # what a helper RETURNS must be a Lua value, a scalar or a tuple of such: never a Python container
                for j, rv in enumerate(r[1:]):
                    bad = walk_result(rv)
                    if bad is not None:
                        fail("luaexec:call_set_functions#results-of-helpers-are-lua-values-or-scalars",
                             f"{hname}(...) returns a Python object of type {bad[1]} at result{bad[0]}",
                             {"helper": hname, "args": [repr(x)[:60] for x in args], "path": bad[0]}, f"{bad[1]}@{hname}")
            if isinstance(r, tuple) and r and r[0] is False and isinstance(r[1], BaseException):
                nerr += 1
                bad = walk_error(r[1])
                if bad is not None:
                    fail("luaexec:call_set_functions#errors-of-helpers-carry-no-python-object",
                         f"pcall({hname}, ...) hands the module a {type(r[1]).__name__} from which a Python object of type "
                         f"{bad[1]} is reachable at {bad[0]}",
                         {"helper": hname, "nargs": n, "args": [repr(x)[:40] for x in args], "path": bad[0]},
                         f"{bad[1]}@{hname}")
# ---- assumed contracts of the four re.sub calls in lua_loader, validated against CPython's re by enumeration
import re as _re
RALPH = ["a", ".", "/", "\x01", ":", " "]
RL = 6 if tier == "quick" else 8
src_ll = inspect.getsource(luaexec.lua_loader)
for pat in (r're.sub(r"[\0-\037]", "", path)', r're.sub(r"//+", "/", path)', r're.sub(r"\.\.+", ".", path)',
            r're.sub(r"^/+", "", path)'):
    if pat not in src_ll:
        fail("c06:regex-contract#lua_loader-pattern-text", f"{pat} not found in lua_loader", {"pattern": pat}, "drift")
nre = 0
for n in range(0, RL + 1):
    for tup in itertools.product(RALPH, repeat=n):
        t = "".join(tup)
        nre += 1
        r1 = _re.sub(r"[\0-\037]", "", t)
        if len(r1) > len(t) or (not any(ord(ch) < 32 for ch in t) and r1 != t):
            fail("c06:regex-contract#strip-controls", repr(t), {"s": t}, "regex")
        if "//" in _re.sub(r"//+", "/", t):
            fail("c06:regex-contract#collapse-slashes", repr(t), {"s": t}, "regex")
        if ".." in _re.sub(r"\.\.+", ".", t):
            fail("c06:regex-contract#collapse-dots", repr(t), {"s": t}, "regex")
        r4 = _re.sub(r"^/+", "", t)
        if r4.startswith("/") or not t.endswith(r4):
            fail("c06:regex-contract#strip-leading-slashes", repr(t), {"s": t}, "regex")
evaluations += nre
import shutil
shutil.rmtree(tmp, ignore_errors=True)
# ---- Lua side: a hostile page module inside the real sandbox
from bounded import c06_lua
n_lua, lua_note = c06_lua.run(fail, quiet_stdout)
evaluations += n_lua
emit({"evaluations": evaluations, "distinct_nontrivial": len(distinct),
      "rule": "distinct module names tried against lua_loader",
      "failures": list(failures.values()), "samples": samples,
      "bound": f"{len(names)} module names (path soups over {len(SEG)} segments to depth {k}, disguised '..' variants, absolute and "
               "colon forms) with a planted file outside the lua directory; attribute filter on a bare LuaRuntime; "
               f"every non-network helper called under pcall with all argument lists of length <= {2 if tier == 'quick' else 3} "
               f"over {len(pool)} hostile values ({nerr} raised; object graph of each error walked through the filter; "
               f"not exercised: {skipped_helpers}); "
               f"re.sub contracts of lua_loader on {nre} strings (length <= {RL}); "
               + lua_note})
