"""C06 bounded tier, Python boundary only: lua_loader path confinement on path
soups (every file opened must lie under the package's lua directory), the
attribute filter on a bare LuaRuntime, and what the values handed to Lua expose."""
import itertools
import os
import random
import sys
import tempfile
from functools import partial
from pathlib import Path

from bounded.harness import emit, new_ctx, payload, quiet_stdout

P = payload()
tier = P.get("tier", "quick")
seed = int(P.get("seed", 0))
rng = random.Random(seed)

from wikitextprocessor import luaexec  # noqa: E402

failures = {}
evaluations = 0
distinct = set()
samples = []


def fail(ident, what, witness, wclass="value"):
    if ident not in failures:
        failures[ident] = {"ident": ident, "witness_class": wclass, "what": what, "witness": witness}


ctx = new_ctx({})
LUA_DIR = Path(str(luaexec.LUA_DIR)).resolve()
tmp = tempfile.mkdtemp(prefix="verif_c06_")
secret = Path(tmp) / "secret.lua"
secret.write_text("return 'SECRET'")
rel_to_secret = os.path.relpath(secret.with_suffix(""), LUA_DIR)
rel_parts = rel_to_secret.split(os.sep)

opened = []
orig_open = Path.open


def spy_open(self, *a, **k):
    opened.append(Path(str(self)))
    return orig_open(self, *a, **k)


Path.open = spy_open
try:
    SEG = ["..", ".", "...", "", "a", "mw", "\x01", " ", ":", "//", "\n..", ".\x01.", ".\t.", "..:"]
    names = ["/" + str(secret.with_suffix("")), str(secret.with_suffix("")), "//" + str(secret.with_suffix("")),
             rel_to_secret, rel_to_secret.replace("..", ".\x01."), rel_to_secret.replace("/", ":"),
             rel_to_secret.replace("..", "...."), " " + rel_to_secret, rel_to_secret.replace("..", ". ."),
             "\x00/" + str(secret.with_suffix("")), ":" + str(secret.with_suffix("")), "mw", "ustring", "_sandbox_phase1"]
    k = 3 if tier == "quick" else 4
    for n in range(1, k + 1):
        for t in itertools.product(SEG, repeat=n):
            names.append("/".join(t) + "/" + "/".join(rel_parts[-2:]))
    for _ in range(300 if tier == "quick" else 5000):
        parts = list(rel_parts)
        for i in range(len(parts)):
            if parts[i] == ".." and rng.random() < 0.6:
                parts[i] = rng.choice(["..", ".\x01.", ". .", "...", ".\n.", "..\x02", "\x03.."])
        names.append(rng.choice(["", "/", "./", ":"]) + rng.choice(["/", ":", "//"]).join(parts))
    for name in names:
        del opened[:]
        evaluations += 1
        try:
            data = luaexec.lua_loader(ctx, name)
        except Exception as ex:
            fail("luaexec:lua_loader#no-exception", f"{type(ex).__name__}: {ex}", {"modname": name}, type(ex).__name__)
            continue
        for p in opened:
            try:
                rp = p.resolve()
            except Exception:
                rp = p
            if LUA_DIR not in rp.parents and rp != LUA_DIR:
                fail("luaexec:lua_loader#opens-only-files-under-the-lua-directory",
                     f"modname {name!r} opened {rp}", {"modname": name, "opened": str(rp)}, "escape")
        if data is not None and "SECRET" in data:
            fail("luaexec:lua_loader#opens-only-files-under-the-lua-directory",
                 f"modname {name!r} returned the content of {secret}", {"modname": name}, "escape")
        distinct.add(name)
finally:
    Path.open = orig_open
samples.append({"modname": names[4]})

# attribute filter on a runtime constructed exactly like initialize_lua does (bare: no sandbox libraries)
lupa = luaexec.lupa
import inspect
src = inspect.getsource(luaexec.initialize_lua)
ns = {}
flt_src = src[src.index("    def filter_attribute_access"):src.index("    lua = lupa.LuaRuntime")]
import textwrap
exec("from typing import Any\nfrom functools import partial\n" + textwrap.dedent(flt_src), ns)
flt = ns["filter_attribute_access"]
lua = lupa.LuaRuntime(unpack_returned_tuples=True, register_eval=False, attribute_filter=flt)
# preferably the runtime that initialize_lua itself builds (it is assigned to ctx.lua before the sandbox
# libraries, which are absent offline, are loaded): this is the real filter closure, state included
try:
    with quiet_stdout():
        luaexec.initialize_lua(ctx)
except Exception:
    pass
if ctx.lua is not None:
    lua = ctx.lua
    real_runtime = True
else:
    real_runtime = False
getter = lua.eval("function(o, n) return o[n] end")


class Probe:
    def __init__(self):
        self._hidden = 1
        self.visible = 2
        self.__dunder__ = 3


for name, expect_ok in (("visible", True), ("_hidden", False), ("__dunder__", False), ("__class__", False), ("__dict__", False)):
    evaluations += 1
    try:
        getter(Probe(), name)
        ok = True
    except Exception:
        ok = False
    if ok != expect_ok:
        fail("luaexec:filter_attribute_access#denies-underscore-names", f"attribute {name!r}: allowed={ok}", {"attr": name})
evaluations += 1
if "python" in list(lua.globals().keys()) and lua.eval("python and python.eval") is not None:
    fail("luaexec:initialize_lua#register_eval-is-off", "python.eval is reachable in a runtime built with these options", {})

# what do the values handed to Lua expose through *public* attributes?
helper = partial(luaexec.get_page_info, ctx)
# probe the same attribute on a non-partial helper first: the filter's answer must not depend on history
try:
    getter(luaexec.fetch_language_name, "args")
except Exception:
    pass
try:
    getter(Probe(), "args")
except Exception:
    pass
evaluations += 1
try:
    leaked = getter(helper, "args")
    reach = leaked is not None and any(x is ctx for x in leaked)
except Exception:
    reach = False
if reach:
    fail("luaexec:call_set_functions#helpers-do-not-expose-the-context",
         "functools.partial helpers handed to Lua expose the Wtp context through the public attribute `args` "
         "(allowed by the attribute filter): getter(partial(get_page_info, ctx), 'args')[0] is ctx",
         {"helper": "partial(get_page_info, ctx)", "attribute": "args"}, "partial.args-exposes-ctx")
import shutil
shutil.rmtree(tmp, ignore_errors=True)
emit({"evaluations": evaluations, "distinct_nontrivial": len(distinct),
      "rule": "distinct module names tried against lua_loader",
      "failures": list(failures.values()), "samples": samples,
      "bound": f"{len(names)} module names (path soups over {len(SEG)} segments to depth {k}, disguised '..' variants, absolute and "
               "colon forms) with a planted file outside the lua directory; attribute filter on a bare LuaRuntime; "
               "Lua-side whitelists are NOT exercised (sandbox cannot start offline)"})
