"""C09 helper: results of a few pages on a context of another language, as JSON.  Run in a fresh interpreter for the
baseline (no other context has existed in that process) and in-process after other contexts were used."""
import json
import sys


def tree(n):
    if isinstance(n, str):
        return n
    return [str(n.kind), repr(n.sarg), [[tree(x) for x in la] for la in (n.largs or [])],
            sorted((k, str(v)) for k, v in (n.attrs or {}).items()), [tree(c) for c in n.children]]


def probe(lang):
    from bounded.harness import quiet_stdout
    from wikitextprocessor import Wtp
    with quiet_stdout():
        ctx = Wtp(lang_code=lang, quiet=True)
    out = {}
    try:
        tns = ctx.NAMESPACE_DATA["Template"]["id"]
        local = ctx.LOCAL_NS_NAME_BY_ID[tns]
        ctx.add_page(f"{local}:a", tns, "A{{{1|}}}")
        ctx.add_page(f"{local}:nw", tns, "N<nowiki>{{a}}</nowiki>M")
        ctx.db_conn.commit()
        pages = ["{{%s:a|x}}" % local.lower(), "{{%s:a}}" % local, "{{a|y}}", "{{template:a|z}}", "{{nw}}",
                 "[[%s:a]] {{ns:%d}}" % (local, tns), "{{formatnum:87654321.5}}", "{{formatnum:87654321.5}} {{formatnum:1234567}}",
                 "{{formatnum:987654321}}"]
        for i, p in enumerate(pages):
            ctx.start_page(f"L{i}")
            try:
                with quiet_stdout():
                    e = ctx.expand(p)
                    t = tree(ctx.parse(p))
                    names = [getattr(n, "template_name", None) for n in ctx.parse(p).children if not isinstance(n, str)]
                out[p] = {"expand": e, "tree": t, "names": names}
            except Exception as ex:
                out[p] = {"exception": f"{type(ex).__name__}: {ex}"}
        # the same pages once more on later pages of the same context: identical results
        again = {}
        for i, p in enumerate(pages):
            ctx.start_page(f"M{i}")
            try:
                with quiet_stdout():
                    again[p] = ctx.expand(p)
            except Exception as ex:
                again[p] = f"{type(ex).__name__}: {ex}"
        out["__repeat__"] = {p: [out[p].get("expand"), again[p]] for p in pages if "expand" in out[p]}
    finally:
        ctx.close_db_conn()
    return out


if __name__ == "__main__":
    print("\n" + json.dumps(probe(sys.argv[1]), sort_keys=True, default=str))
