"""C09 bounded tier: page histories on one context vs fresh contexts on the same
database (Python-only pages; Lua cannot start offline)."""
import itertools
import os
import random
import sys
import tempfile

from bounded.harness import emit, payload, quiet_stdout
from bounded.harness import install_watchdog
install_watchdog()

P = payload()
tier = P.get("tier", "quick")
seed = int(P.get("seed", 0))
rng = random.Random(seed)

from wikitextprocessor import Wtp, WikiNode  # noqa: E402

failures = {}
evaluations = 0
distinct = set()
samples = []
TMP = tempfile.mkdtemp(prefix="verif_c09_")
DB = os.path.join(TMP, "db.sqlite")


def fail(ident, what, witness, wclass="value"):
    if ident not in failures:
        failures[ident] = {"ident": ident, "witness_class": wclass, "what": what, "witness": witness}


def tree(n):
    if isinstance(n, str):
        return n
    return (str(n.kind), repr(n.sarg), [[tree(x) for x in la] for la in (n.largs or [])],
            sorted((k, str(v)) for k, v in (n.attrs or {}).items()), [tree(c) for c in n.children])


def setup(ctx):
    ctx.add_page("Template:a", 10, "A{{{1|}}}")
    ctx.add_page("Template:loop", 10, "x{{loop}}")
    ctx.add_page("Template:nw", 10, "N<nowiki>{{a}} [[x]]</nowiki>M")
    ctx.add_page("Template:h", 10, "==H==\n{{{1|}}}", need_pre_expand=True)
    ctx.add_page("Foo:Bar", 0, "AB<noinclude>doc</noinclude>")
    ctx.add_page("Glossary", 0, "G<noinclude>n</noinclude><section begin=s/>sec<section end=s/>")
    ctx.db_conn.commit()


with quiet_stdout():
    c0 = Wtp(db_path=DB, quiet=True)
setup(c0)
c0.close_db_conn() if False else c0.db_conn.close()

PAGES = ["plain text", "{{a|x}} and {{a}}", "{{nw}} {{nw}} <nowiki>q</nowiki>", "{{#time:Y-m-d|1 mars 2020}} {{formatnum:87654321.5}}",
         "{{#time:Y-m-d|02/03/2020}} {{#time:j F Y|10.11.2019}} {{formatnum:1234567.25}}", "{{#time:t|2004-02-01}} {{#time:L t|2024-02-10}}",
         "{{#time:t|2007-02-01}} {{#time:t|2023-02-20}} {{SITENAME}} {{NUMBEROFUSERS}}", "{{loop}}", "<pre>unclosed pre\n* li", "==H==\n* a\n** b", "{{#expr:1+}} {{#if:x|y}}",
         "{| \n| cell\n|}", "'''bold ''it", "{{:Foo:Bar}}", "{{PAGESIZE:Foo:Bar}}", "{{#lst:Glossary|s}}", "{{:Glossary}}",
         "<foo>x</foo> <b>y</b>", "{{h|z}}", "[[L|{{a}}]] [http://x y]", "<nowiki>{{a}}</nowiki><!-- c -->", "{{#invoke}}",
         "{{nosuch|{{a}}}}", ":; mixed\n#* list", "<ref name=x>r</ref><references/>", "{{a|\n}}", "</pre> </b> |}", "{{#tag:span|x}}",
         "{{t|" * 700 + "x" + "}}" * 700, "[[L|" * 700 + "x"]
DEEP = [i for i, p in enumerate(PAGES) if len(p) > 1000]
if tier == "quick":
    PAGES = PAGES[:21] + PAGES[-2:]
    DEEP = [i for i, p in enumerate(PAGES) if len(p) > 1000]


def run_page(ctx, idx, page, mode):
    ctx.start_page(f"P{idx}")
    out = {}
    try:
        with quiet_stdout():
            if mode in ("both", "expand"):
                out["expand"] = ctx.expand(page)
            if mode in ("both", "parse"):
                out["tree"] = tree(ctx.parse(page, pre_expand=True))
    except Exception as ex:
        out["exception"] = f"{type(ex).__name__}: {ex}"
    ret = ctx.to_return()
    out["messages"] = {k: [(m["msg"], m["title"], m["path"]) for m in v] for k, v in ret.items()}
    return out


fresh_cache = {}


def fresh(idx, page, mode):
    key = (idx, page, mode)
    if key not in fresh_cache:
        with quiet_stdout():
            c = Wtp(db_path=DB, quiet=True)
        fresh_cache[key] = run_page(c, idx, page, mode)
        c.db_conn.close()
    return fresh_cache[key]


def history(seq, modes, pre_contexts=False):
    global evaluations
    if pre_contexts:
        with quiet_stdout():
            other = Wtp(db_path=DB, quiet=True, extension_tags={"foo": {"parents": ["phrasing"], "content": ["phrasing"]}},
                        parser_function_aliases={"#si": "#if"}, lang_code="fr")
        other.db_conn.close()
    with quiet_stdout():
        ctx = Wtp(db_path=DB, quiet=True)
    try:
        for pos, (i, mode) in enumerate(zip(seq, modes)):
            evaluations += 1
            got = run_page(ctx, i, PAGES[i], mode)
            want = fresh(i, PAGES[i], mode)
            if got != want:
                diff = [k for k in want if got.get(k) != want.get(k)]
                fail("c09:page-result-equals-fresh-context", f"page {PAGES[i]!r} after {[PAGES[j] for j in seq[:pos]]}: differs in {diff}: "
                     f"{ {k: (str(got.get(k))[:80], str(want.get(k))[:80]) for k in diff} }",
                     {"history": [PAGES[j] for j in seq[:pos + 1]], "modes": list(modes[:pos + 1]),
                      "other_context_created_first": pre_contexts}, "history-dependent")
                return
    finally:
        ctx.db_conn.close()
    distinct.add((tuple(seq), tuple(modes), pre_contexts))


n = len(PAGES)
# every ordered pair (and every page after itself), both modes; then random longer histories
for a, b in itertools.product(range(n), repeat=2):
    history([a, b], ["both", "both"])
for _ in range(60 if tier == "quick" else 1500):
    k = rng.randint(3, 6)
    seq = [rng.randrange(n) for _ in range(k)]
    modes = [rng.choice(["both", "parse", "expand"]) for _ in range(k)]
    history(seq, modes, pre_contexts=rng.random() < 0.4)
for i in range(n):
    history([i], ["both"], pre_contexts=True)
# a page whose processing is aborted by an exception (very deep nesting), then ordinary pages
for d in DEEP:
    for j in range(min(n, 8)):
        history([d, j], ["parse", "both"])
# line forms whose handling goes through a slow path the first time they are seen in a process (an indented table-header
# mark outside a table, indented cell marks): the same page twice, and after each other
for extra in (" !x", "a\n !b c\n !d", " | c\n !! d", "{|\n ! h\n|}\n !z"):
    PAGES.append(extra)
    for mode_ in ("both", "parse"):
        history([len(PAGES) - 1, len(PAGES) - 1], [mode_, mode_])
    if len(PAGES) >= 2:
        history([len(PAGES) - 2, len(PAGES) - 1, len(PAGES) - 2], ["parse", "parse", "parse"])
# several calls on ONE started page, with different option sets: the expansion and the tree of a later call equal those
# of a fresh context that starts the same page and makes only that call, and so do the messages that call adds
OPTSETS = [{}, {"expand_invoke": False}, {"expand_parserfns": False}, {"pre_expand": True}]
SP_PAGES = ["{{a|x}} {{#invoke:m|f}}", "{{#invoke:m|f}} {{#invoke:m|g}}", "{{a}} [[L|{{a}}]]", "{{loop}} {{a}}", "<nowiki>{{a}}</nowiki> {{nw}}",
            "{{#if:x|{{a}}|n}}", "text {{h|z}}"]


def one_call(c, page, opts):
    out = {}
    before = {k: len(v) for k, v in c.to_return().items()}
    try:
        with quiet_stdout():
            out["expand"] = c.expand(page, **opts)
            if "expand_invoke" not in opts and "expand_parserfns" not in opts and "#invoke" not in page:
                out["tree"] = tree(c.parse(page))
    except Exception as ex:
        out["exception"] = f"{type(ex).__name__}: {str(ex)[:80]}"
    # the messages this call added (with the expansion path they were recorded under)
    out["new_messages"] = {k: [(m["msg"], m["path"]) for m in v[before[k]:]] for k, v in c.to_return().items()}
    return out


for first, second in itertools.product(range(len(SP_PAGES)), repeat=2):
    for o1, o2 in itertools.product(OPTSETS[:2] if tier == "quick" else OPTSETS, repeat=2):
        if "#invoke" in SP_PAGES[first] and "expand_invoke" not in o1:
            continue         # would start the Lua sandbox (absent offline)
        if "#invoke" in SP_PAGES[second] and "expand_invoke" not in o2:
            continue
        evaluations += 1
        with quiet_stdout():
            c1 = Wtp(db_path=DB, quiet=True)
            c2 = Wtp(db_path=DB, quiet=True)
        try:
            c1.start_page("Same")
            for _ in range(3):
                one_call(c1, SP_PAGES[first], o1)
            got = one_call(c1, SP_PAGES[second], o2)
            c2.start_page("Same")
            want = one_call(c2, SP_PAGES[second], o2)
            if got != want:
                fail("c09:later-call-on-the-same-page-equals-fresh-context",
                     f"{SP_PAGES[second]!r} {o2} after 3x {SP_PAGES[first]!r} {o1}: {str(got)[:120]} vs {str(want)[:120]}",
                     {"first": SP_PAGES[first], "first_options": o1, "second": SP_PAGES[second], "second_options": o2},
                     "call-history-dependent")
        finally:
            c1.db_conn.close()
            c2.db_conn.close()
        distinct.add(("same-page", first, second, str(o1), str(o2)))
# contexts of other languages, after the English contexts above were used in this process: same results as in a
# fresh interpreter (state kept on the class or the module would show here)
import json
import subprocess
from bounded.c09_langprobe import probe
for lang in (["fr", "zh", "hi"] if tier == "quick" else ["fr", "zh", "hi", "de", "ru", "es", "ja", "te"]):
    evaluations += 1
    try:
        child = subprocess.run([sys.executable, "-m", "bounded.c09_langprobe", lang], capture_output=True, text=True,
                               timeout=600, cwd=os.path.dirname(os.path.dirname(os.path.abspath(__file__))))
        want = json.loads(child.stdout.strip().splitlines()[-1])
    except Exception as ex:
        fail("c09:other-language-context#baseline-run", f"{type(ex).__name__}: {ex}", {"lang": lang}, "harness")
        continue
    got = json.loads(json.dumps(probe(lang), sort_keys=True, default=str))
    for p_, (first_, again_) in got.get("__repeat__", {}).items():
        if first_ != again_:
            fail("c09:same-text-on-a-later-page-gives-the-same-expansion",
                 f"lang_code={lang!r}: {p_!r} gave {first_!r} on its first page and {again_!r} on a later page of the same context",
                 {"lang_code": lang, "page": p_}, "history-dependent")
    if got != want:
        diff = [k for k in want if got.get(k) != want.get(k)]
        fail("c09:other-language-context-equals-fresh-interpreter",
             f"lang_code={lang!r} after English contexts were used in the same process: differs on {diff[:3]}: "
             f"{ {k: (str(got.get(k))[:100], str(want.get(k))[:100]) for k in diff[:2]} }",
             {"lang_code": lang, "pages": diff[:3]}, "process-history-dependent")
    distinct.add(("lang", lang))
# a context with its own tag table keeps rendering as a fresh context with the same options does, whatever other
# contexts are created (and used) in between; rendering = parse, then node_to_wikitext / node_to_html / node_to_text
EXT = {"phonos": {"parents": ["phrasing"], "content": []}, "foo": {"parents": ["phrasing", "flow"], "content": ["phrasing"]}}
EXT_PAGES = ["a <phonos file=x.ogg /> b", "<foo>in</foo> <foo a=1/>", "{|\n| <phonos f=y/> c\n|}", "<br> <phonos/> <hr/>"]


def render_all(c):
    out = []
    for ep in EXT_PAGES:
        c.start_page("Ext")
        with quiet_stdout():
            root = c.parse(ep)
            out.append((tree(root), c.node_to_wikitext(root), c.node_to_html(root), c.node_to_text(root)))
    return out


for between in ("plain-context", "other-extension-tags", "nothing"):
    evaluations += 1
    with quiet_stdout():
        c1 = Wtp(db_path=DB, quiet=True, extension_tags=EXT)
    first = render_all(c1)
    with quiet_stdout():
        if between == "plain-context":
            c2 = Wtp(db_path=DB, quiet=True)
        elif between == "other-extension-tags":
            c2 = Wtp(db_path=DB, quiet=True, extension_tags={"bar": {"parents": ["phrasing"], "content": ["phrasing"]}})
        else:
            c2 = None
    if c2 is not None:
        render_all(c2)
    again = render_all(c1)
    with quiet_stdout():
        c3 = Wtp(db_path=DB, quiet=True, extension_tags=EXT)
    fresh_r = render_all(c3)
    for c_ in (c1, c2, c3):
        if c_ is not None:
            c_.db_conn.close()
    if first != fresh_r or again != fresh_r:
        k = next(i for i in range(len(EXT_PAGES)) if first[i] != fresh_r[i] or again[i] != fresh_r[i])
        fail("c09:page-result-equals-fresh-context",
             f"context with extension tags, page {EXT_PAGES[k]!r}: first {first[k][1:3]}, after creating {between} {again[k][1:3]}, "
             f"fresh same-options context {fresh_r[k][1:3]}",
             {"page": EXT_PAGES[k], "context_created_in_between": between}, "history-dependent")
    distinct.add(("ext-context", between))
# ---- Lua half of the statement, inside the repository's own sandbox (stand-in for the one absent Scribunto library,
# ustring): module-level state, globals and library-table writes of one invocation are not seen by later invocations or
# pages.  A module stored under one of the names the sandbox RETAINS across pages for speed keeps its module-level
# state by design: reported under its own identity (known finding)
def lua_state_section():
    global evaluations
    from wikitextprocessor import luaexec
    from bounded.c06_lua import USTRING_STUB
    orig_loader = luaexec.lua_loader

    def loader(c_, modname):
        r_ = orig_loader(c_, modname)
        return USTRING_STUB if (r_ is None and modname == "ustring:ustring") else r_
    CNT = ("local p = {}\nlocal n = 0\nfunction p.f(frame) n = n + 1; return tostring(n) end\n"
           "function p.g(frame) G_LEAK = (G_LEAK or 0) + 1; return tostring(G_LEAK) end\n"
           "function p.s(frame) string.leak = (string.leak or 0) + 1; table.leak = (table.leak or 0) + 1; "
           "return tostring(string.leak) .. tostring(table.leak) end\n"
           "function p.d(frame) local d = mw.loadData('Module:cnt/data'); return tostring(d.x) end\nreturn p")
    USER = "local p = {}\nfunction p.f(frame) return require('Module:%s').f(frame) end\nreturn p"
    PAGES_L = {"plain": "{{#invoke:cnt|f}}{{#invoke:cnt|f}} {{#invoke:cnt|g}}{{#invoke:cnt|g}} {{#invoke:cnt|s}}{{#invoke:cnt|s}} {{#invoke:cnt|d}}",
               "required": "{{#invoke:usercnt|f}}{{#invoke:usercnt|f}}{{#invoke:cnt|f}}",
               "retained": "{{#invoke:table|f}}{{#invoke:usertable|f}}{{#invoke:usertable|f}}"}

    def mk(k):
        with quiet_stdout():
            c_ = Wtp(db_path=os.path.join(TMP, "lua%d.db" % k), quiet=True)
        ns_ = c_.NAMESPACE_DATA["Module"]["id"]
        for nm, body in (("cnt", CNT), ("table", CNT), ("cnt/data", "return { x = 1 }"), ("usercnt", USER % "cnt"), ("usertable", USER % "table")):
            c_.add_page("Module:" + nm, ns_, body, model="Scribunto")
        c_.db_conn.commit()
        return c_

    def one(c_, title, key):
        c_.start_page(title)
        with quiet_stdout():
            return c_.expand(PAGES_L[key])
    luaexec.lua_loader = loader
    try:
        long_ctx = mk(0)
        k_ = 1
        for title, key in (("A", "plain"), ("B", "required"), ("C", "plain"), ("D", "retained"), ("E", "required"), ("F", "retained"), ("G", "plain")):
            got = one(long_ctx, title, key)
            fr = mk(k_)
            k_ += 1
            want = one(fr, title, key)
            fr.db_conn.close()
            evaluations += 1
            if "Lua execution error" in want or "error" in want.lower():
                fail("c09:lua-state#probe-modules-run", f"page {key}: {want[:200]!r}", {"page": PAGES_L[key]}, "harness")
                return
            if got != want:
                if key == "retained":
                    fail("c09:lua-state#invocation-equals-fresh-context[retained-module-name]",
                         f"page {title} ({PAGES_L[key]}) on a long-lived context gives {got!r}, on a fresh context {want!r}",
                         {"page": PAGES_L[key], "history": "pages A.." + title}, "known-deviation:retained-module-keeps-module-level-state")
                else:
                    fail("c09:lua-state#invocation-equals-fresh-context",
                         f"page {title} ({PAGES_L[key]}) on a long-lived context gives {got!r}, on a fresh context {want!r}",
                         {"page": PAGES_L[key], "history": "pages A.." + title}, "history-dependent")
            if key == "plain" and want != "11 11 1111 1":
                fail("c09:lua-state#state-of-one-invocation-invisible-to-the-next",
                     f"two invocations of a stateful module on one page give {want!r} (each should start from the module's initial state)",
                     {"page": PAGES_L[key]}, "history-dependent")
            distinct.add(("lua-state", title))
        long_ctx.db_conn.close()
    except Exception as ex:
        fail("c09:lua-state#probe-modules-run", f"{type(ex).__name__}: {ex}", {}, "harness")
    finally:
        luaexec.lua_loader = orig_loader


lua_state_section()
samples.append({"history": [PAGES[0], PAGES[3], PAGES[4]]})
import shutil
shutil.rmtree(TMP, ignore_errors=True)
emit({"evaluations": evaluations, "distinct_nontrivial": len(distinct),
      "rule": "distinct (page index sequence, mode sequence, other-context-first) histories",
      "failures": list(failures.values()), "samples": samples,
      "bound": f"all ordered pairs of {n} Python-only pages, random histories of length 3..6 with interleaved parse/expand, "
               "optionally after creating a context with extension_tags/aliases/another language; tree + expansion + messages "
               "compared with a fresh context on the same database; contexts of other languages compared with a fresh "
               "interpreter; Lua-side state not covered (sandbox cannot start offline)"})
