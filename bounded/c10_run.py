"""C10 bounded tier: operation sequences on a real SQLite file with the abstract
page map carried as run-time ghost state (stand-in, not counted as proved)."""
import itertools
import json
import os
import random
import sys
import tempfile
from pathlib import Path

from bounded.harness import emit, payload, quiet_stdout

P = payload()
tier = P.get("tier", "quick")
seed = int(P.get("seed", 0))
rng = random.Random(seed)

import wikitextprocessor  # noqa: E402
from wikitextprocessor import Wtp  # noqa: E402

failures = {}
evaluations = 0
distinct = set()
samples = []


def fail(ident, what, witness, wclass="value"):
    if ident not in failures:
        failures[ident] = {"ident": ident, "witness_class": wclass, "what": what, "witness": witness}


TMP = tempfile.mkdtemp(prefix="verif_c10_")


def newctx(path):
    with quiet_stdout():
        return Wtp(db_path=path, quiet=True)


# title universe: (stored title without prefix, namespace id)
PAGES = [("Foo", 10), ("IPAchar", 10), ("foo bar", 828), ("Foo", 0), ("lower", 10), ("Lower", 10), ("ru:noun", 10),
         ("ÿ-box", 10), ("Ÿ-box", 10),          # upper-case form with the higher code point
         ("e\u0301x", 10)]                      # stored in decomposed form: looked up exactly as stored
BODIES = ["b1", "b2 with  spaces\n", ""]


def variants(ctx, name, ns):
    """(spelling, bare name it denotes) pairs under which the statement says the page must be found"""
    if ns == 0:
        return [(name, name), (name.replace(" ", "_"), name), ("Main:" + name, name)]
    local = ctx.LOCAL_NS_NAME_BY_ID[ns]
    prefixes = [local + ":", local.lower() + ":", local.upper() + ":"]
    for key, d in ctx.NAMESPACE_DATA.items():
        if d["id"] == ns:
            prefixes += [a + ":" for a in d["aliases"]]
    lowfirst = name[:1].lower() + name[1:]
    out = [(name, name), (lowfirst, lowfirst)]
    for p in prefixes:
        out += [(p + name, name), (p + name.replace(" ", "_"), name)]
    return out


def expected_row(model, ctx, bare, ns):
    """exact spelling first, then the spelling with the first letter upper-cased (outside the main namespace)"""
    row = model.get(model_key(bare, ns, ctx))
    if row is None and ns != 0:
        row = model.get(model_key(bare[:1].upper() + bare[1:], ns, ctx))
        return row, model_key(bare[:1].upper() + bare[1:], ns, ctx)[0]
    return row, model_key(bare, ns, ctx)[0]


def non_variants(name, ns):
    """spellings that must NOT find the page (case of a later letter differs)"""
    out = []
    for i in range(1, len(name)):
        if name[i].isalpha():
            out.append(name[:i] + name[i].swapcase() + name[i + 1:])
            break
    return out


OPS = []
for pi, (name, ns) in enumerate(PAGES):
    for bi in range(2):
        OPS.append(("add", pi, bi))
    OPS.append(("redir", pi))
    OPS.append(("lookup", pi))
OPS += [("commit",), ("reopen",), ("close_reopen",)]


def model_key(name, ns, ctx):
    prefix = "" if ns == 0 else ctx.LOCAL_NS_NAME_BY_ID[ns] + ":"
    return (prefix + name, ns)


def run_sequence(seq, idx):
    global evaluations
    path = Path(TMP) / f"db{idx}.sqlite"
    for suffix in ("", "-wal", "-shm"):
        try:
            os.unlink(str(path) + suffix)
        except OSError:
            pass
    ctx = newctx(path)
    model = {}
    committed = {}
    try:
        for step, op in enumerate(seq):
            evaluations += 1
            if op[0] == "add":
                name, ns = PAGES[op[1]]
                body = BODIES[op[2]]
                spell = rng.choice([name, (ctx.LOCAL_NS_NAME_BY_ID[ns] + ":" + name) if ns else name])
                ctx.add_page(spell, ns, body, model="wikitext" if ns != 828 else "Scribunto")
                model[model_key(name, ns, ctx)] = {"body": body, "redirect_to": None,
                                                    "model": "wikitext" if ns != 828 else "Scribunto"}
            elif op[0] == "redir":
                name, ns = PAGES[op[1]]
                tname, tns = PAGES[(op[1] + 1) % len(PAGES)]
                if tns != ns:
                    tname, tns = "Target", ns
                    ctx.add_page(tname, ns, "target-body")
                    model[model_key(tname, ns, ctx)] = {"body": "target-body", "redirect_to": None, "model": "wikitext"}
                target_full = model_key(tname, tns, ctx)[0]
                ctx.add_page(name, ns, None, redirect_to=target_full)
                model[model_key(name, ns, ctx)] = {"body": None, "redirect_to": target_full, "model": "wikitext"}
            elif op[0] == "lookup":
                name, ns = PAGES[op[1]]
                for v, bare in variants(ctx, name, ns):
                    want, want_title = expected_row(model, ctx, bare, ns)
                    got = ctx.get_page(v, ns)
                    ex = ctx.page_exists(v, ns)
                    if (got is not None) != ex:
                        fail("core:Wtp.page_exists#agrees-with-get_page", f"{v!r} ns={ns}: get_page {got} exists {ex}",
                             {"sequence": seq[: step + 1], "spelling": v})
                    if want is None:
                        if got is not None:
                            fail("core:Wtp.get_page#absent-pages-stay-absent", f"{v!r} ns={ns} found {got}",
                                 {"sequence": seq[: step + 1], "spelling": v})
                        continue
                    if got is None:
                        fail("core:Wtp.get_page#finds-latest-under-every-spelling",
                             f"{v!r} ns={ns} not found; stored {want_title}",
                             {"sequence": seq[: step + 1], "spelling": v}, "not-found")
                        continue
                    if (got.body, got.redirect_to, got.model) != (want["body"], want["redirect_to"], want["model"]) \
                            or got.title != want_title or got.namespace_id != ns:
                        fail("core:Wtp.get_page#returns-most-recently-added-row",
                             f"{v!r} ns={ns}: got {(got.title, got.body, got.redirect_to, got.model)} want {want}",
                             {"sequence": seq[: step + 1], "spelling": v}, "stale-or-wrong-row")
                    # one-hop redirect resolution and body projection
                    body = ctx.get_page_body(v, ns)
                    if want["redirect_to"] is None:
                        wb = want["body"]
                    else:
                        # one hop, no_redirect=True: the exact target spelling, else its upper-cased-first twin,
                        # whichever is stored and is not itself a redirect
                        rt = want["redirect_to"]
                        pfx = "" if ns == 0 else ctx.LOCAL_NS_NAME_BY_ID[ns] + ":"
                        bare_t = rt[len(pfx):] if rt.startswith(pfx) else rt
                        cands = [(pfx + bare_t, ns)] + ([(pfx + bare_t[:1].upper() + bare_t[1:], ns)] if ns != 0 else [])
                        wb = None
                        for ck in cands:
                            tgt = model.get(ck)
                            if tgt is not None and tgt["redirect_to"] is None:
                                wb = tgt["body"]
                                break
                    if body != wb:
                        fail("core:Wtp.get_page_body#one-hop-redirect-resolution",
                             f"{v!r} ns={ns}: body {body!r} want {wb!r}", {"sequence": seq[: step + 1], "spelling": v})
                for v, _b in variants(ctx, name, ns)[:3]:
                    nr = ctx.get_page(v, ns, True)
                    if nr is not None and nr.redirect_to is not None:
                        fail("core:Wtp.get_page#no_redirect-never-returns-a-redirect", f"{v!r} ns={ns}: {nr}",
                             {"sequence": seq[: step + 1], "spelling": v}, "redirect-returned")
                for v in non_variants(name, ns):
                    if expected_row(model, ctx, v, ns)[0] is None and ctx.get_page(v, ns) is not None:
                        fail("core:Wtp.get_page#titles-otherwise-case-sensitive",
                             f"{v!r} ns={ns} found although only {name!r} may be stored",
                             {"sequence": seq[: step + 1], "spelling": v}, "case-insensitive-hit")
            elif op[0] == "commit":
                ctx.db_conn.commit()
                committed = {k: dict(v) for k, v in model.items()}
            elif op[0] in ("reopen", "close_reopen"):
                ctx.db_conn.commit()
                committed = {k: dict(v) for k, v in model.items()}
                if op[0] == "close_reopen":
                    ctx.close_db_conn()          # the documented way to finish with a context
                else:
                    ctx.db_conn.close()
                ctx = newctx(path)
                # committed content identical through a new context
                rows = {(p.title, p.namespace_id): {"body": p.body, "redirect_to": p.redirect_to, "model": p.model}
                        for p in ctx.get_all_pages()}
                if rows != committed:
                    fail("core:Wtp#committed-content-identical-through-new-context",
                         f"after reopen {rows} want {committed}", {"sequence": seq[: step + 1]})
    finally:
        try:
            ctx.db_conn.close()
        except Exception:
            pass
    distinct.add(tuple(seq))


maxlen = 3 if tier == "quick" else 4
idx = 0
for n in range(1, maxlen + 1):
    if n == maxlen:
        # the longest length is sampled in both tiers (the operation alphabet has grown to ~40 operations)
        seqs = [tuple(rng.choice(OPS) for _ in range(n)) for _ in range(1500 if tier == "quick" else 40000)]
    else:
        seqs = list(itertools.product(OPS, repeat=n))
    for seq in seqs:
        # keep only sequences with at least one lookup after at least one write, or a reopen
        if not any(o[0] in ("lookup", "reopen", "close_reopen") for o in seq):
            continue
        try:
            run_sequence(list(seq), idx % 8)
        except Exception as ex:
            fail("core:page-store#no-exception", f"{type(ex).__name__}: {ex}", {"sequence": list(seq)}, type(ex).__name__)
        idx += 1
for _ in range(60 if tier == "quick" else 1500):
    seq = [rng.choice(OPS) for _ in range(rng.randint(5, 40))] + [("lookup", rng.randrange(len(PAGES)))]
    try:
        run_sequence(seq, idx % 8)
    except Exception as ex:
        fail("core:page-store#no-exception", f"{type(ex).__name__}: {ex}", {"sequence": seq}, type(ex).__name__)
    idx += 1
samples.append({"sequence": [list(o) for o in list(distinct)[0]] if distinct else []})

# redirects across namespaces looked up without a namespace (PAGESIZE, transclusion fallback): one hop, resolved
cx = newctx(Path(TMP) / "x.sqlite")
try:
    app = [i for i, n in cx.LOCAL_NS_NAME_BY_ID.items() if n == "Appendix"]
    ans = app[0] if app else 4
    aname = cx.LOCAL_NS_NAME_BY_ID[ans]
    cx.add_page(f"{aname}:Glossary", ans, "glossary body")
    cx.add_page("Glossary", 0, None, redirect_to=f"{aname}:Glossary")
    cx.add_page("water", 0, "water body")
    cx.add_page(f"{aname}:Water", ans, None, redirect_to="water")
    cx.db_conn.commit()
    for title, want in (("Glossary", "glossary body"), (f"{aname}:Water", "water body"), (f"{aname}:Glossary", "glossary body")):
        evaluations += 1
        got = cx.get_page_body(title, None)
        pg = cx.get_page_resolve_redirect(title, None)
        if got != want or pg is None or pg.body != want:
            fail("core:Wtp.get_page_body#one-hop-redirect-resolution",
                 f"{title!r} looked up without a namespace: body {got!r} want {want!r}", {"title": title, "namespace_id": None},
                 "cross-namespace-redirect")
finally:
    cx.db_conn.close()
# a non-English configuration: the page is found under the local prefix, the canonical English prefix and the
# aliases, in any letter case; and not under the prefix of another namespace
for lang in (["fr", "de"] if tier == "quick" else ["fr", "de", "ru", "zh", "es", "pl"]):
    with quiet_stdout():
        cl = Wtp(db_path=Path(TMP) / f"l_{lang}.sqlite", quiet=True, lang_code=lang)
    try:
        for canon in ("Template", "Module"):
            d_ = cl.NAMESPACE_DATA[canon]
            nsid = d_["id"]
            local = cl.LOCAL_NS_NAME_BY_ID[nsid]
            cl.add_page(f"{local}:En-IPA x", nsid, "body " + canon, model="wikitext" if canon == "Template" else "Scribunto")
            spellings = {local, canon} | set(d_["aliases"])
            for pre in sorted(spellings):
                for var in (pre, pre.lower(), pre.upper()):
                    evaluations += 1
                    pg = cl.get_page(f"{var}:En-IPA x", nsid)
                    if pg is None or pg.body != "body " + canon or not cl.page_exists(f"{var}:En-IPA_x", nsid):
                        fail("core:Wtp.get_page#finds-latest-under-every-spelling",
                             f"lang_code={lang!r}: {var + ':En-IPA x'!r} ns={nsid} not found (stored {local + ':En-IPA x'!r})",
                             {"lang_code": lang, "spelling": f"{var}:En-IPA x", "namespace_id": nsid}, "not-found")
            if cl.get_page(f"{local}:en-IPA X", nsid) is not None:
                fail("core:Wtp.get_page#titles-otherwise-case-sensitive", f"lang_code={lang!r}: case variant found",
                     {"lang_code": lang}, "case-insensitive-hit")
    finally:
        cl.db_conn.close()
# F: namespace_prefixes returns prefixes ending with ':' for every namespace of every shipped data file
data = Path(wikitextprocessor.__file__).parent / "data"
nfiles = nbad = 0
for f in sorted(data.glob("*/namespaces.json")):
    nfiles += 1
    d = json.loads(f.read_text(encoding="utf-8"))
    ids = [ns["id"] for ns in d.values()]
    names_ = [ns["name"] for ns in d.values() if ns["name"]]
    if len(ids) != len(set(ids)) or len(names_) != len(set(names_)):
        dup = sorted({i for i in ids if ids.count(i) > 1}) + sorted({n for n in names_ if names_.count(n) > 1})
        fail("data:namespaces.json#namespace-ids-and-names-are-unique", f"{f.parent.name}/namespaces.json: duplicates {dup}",
             {"file": f"{f.parent.name}/namespaces.json", "duplicates": dup}, "duplicate-namespace")
    for key, ns in d.items():
        prefixes = [ns["name"].lower() + ":"] + [a.lower() + ":" for a in ns["aliases"]]
        if any(not p.endswith(":") for p in prefixes):
            nbad += 1
c0 = newctx(Path(TMP) / "f.sqlite")
for ns in c0.LOCAL_NS_NAME_BY_ID:
    pf = c0.namespace_prefixes(ns)
    evaluations += 1
    if not isinstance(pf, tuple) or any((not isinstance(p, str)) or not p.endswith(":") for p in pf):
        fail("core:Wtp.namespace_prefixes#every-prefix-ends-with-colon", f"ns {ns}: {pf}", {"ns": ns})
c0.db_conn.close()
# a page ADDED under a title spelled with underscores is looked up like any other (lookups treat underscores and
# blanks alike, so what add_page stores must be found by them)
cu = newctx(Path(TMP) / "u.sqlite")
for title_, ns_, body_ in (("Template:u_v", 10, "b1"), ("w_x y", 0, "b2"), ("Module:m_n", 828, "b3")):
    cu.add_page(title_, ns_, body_)
    evaluations += 1
    for spell in (title_, title_.replace("_", " ")):
        pg = cu.get_page(spell, ns_)
        if pg is None or pg.body != body_ or not cu.page_exists(spell, ns_):
            fail("core:Wtp.get_page#returns-most-recently-added-row[title-added-with-underscores]",
                 f"add_page({title_!r}, {ns_}, {body_!r}) then get_page({spell!r}, {ns_}) -> "
                 f"{None if pg is None else (pg.title, pg.body)}, page_exists -> {cu.page_exists(spell, ns_)}: the title is stored "
                 "verbatim while lookups replace underscores by blanks",
                 {"ops": [["add", title_, ns_, body_], ["lookup", spell, ns_]]}, "known-deviation:underscore-title-stored-verbatim")
            break
cu.db_conn.close()
import shutil
shutil.rmtree(TMP, ignore_errors=True)
emit({"evaluations": evaluations, "distinct_nontrivial": len(distinct),
      "rule": "distinct operation sequences containing a lookup or a reopen; each lookup tries every spelling "
              "variant (prefix given/omitted/aliased/other case, underscores, lower-case first letter) and a "
              "case-differing non-variant",
      "failures": list(failures.values()), "samples": samples,
      "bound": f"all sequences of length <= {maxlen - 1} over {len(OPS)} operations on {len(PAGES)} titles "
               f"(length {maxlen}: sampled), random sequences to length 40; real SQLite file"})
