"""C12 bounded tier: generated .xml.bz2 dumps through the real lxml path
(parse_dump_xml + add_default_templates) against the ingestion spec."""
import bz2
import os
import random
import shutil
import sys
import tempfile
from pathlib import Path
from xml.sax.saxutils import escape

from bounded.harness import emit, payload, quiet_stdout
from bounded.harness import install_watchdog
install_watchdog()

P = payload()
tier = P.get("tier", "quick")
seed = int(P.get("seed", 0))
rng = random.Random(seed)

from wikitextprocessor import Wtp  # noqa: E402
from wikitextprocessor.dumpparser import add_default_templates, parse_dump_xml  # noqa: E402

failures = {}
evaluations = 0
distinct = set()
samples = []
TMP = tempfile.mkdtemp(prefix="verif_c12_")


def fail(ident, what, witness, wclass="value"):
    if ident not in failures:
        failures[ident] = {"ident": ident, "witness_class": wclass, "what": what, "witness": witness}


with quiet_stdout():
    probe = Wtp(quiet=True)
NS = dict(probe.LOCAL_NS_NAME_BY_ID)
TEMPLATE_NS = probe.NAMESPACE_DATA["Template"]["id"]
probe.close_db_conn()
NSIDS = [0, 10, 828, 14, 4, 12, 100, 118, 8]
BASES = ["Foo", "foo bar", "Über/sub", "a:b", "x/documentation", "y/documentation/ja", "z/testcases", "Templates in use",
         "Modules/list", "Category tree", "A&B <c>", "ﬁn", "q/testcases/2", "Main:Foo", "T/doc"]
BODIES = ["x<noinclude>doc\n", " <noinclude>d</noinclude> \n y", "a<noinclude>d</noinclude >b", "m<!-- two\nlines -->n\nrest",
          "k</includeonly>z", "p< includeonly >q</ includeonly >", "text", "  lead and trail  \n", "<noinclude>doc</noinclude>body", "a &amp; <b> \"q\" 'z'", "", "line1\n\nline2\n",
          "<!-- c -->x<includeonly>i</includeonly>", "{{t|a=b}}\t\ttabs"]
MODELS = ["wikitext", "Scribunto", "json", "css", "javascript", "sanitized-css"]


def ref_body(text):
    import re
    text = re.sub(r"(?s)<!--.*?-->", "", text)
    text = re.sub(r"(?is)<noinclude\s*>.*?</noinclude\s*>", "", text)
    text = re.sub(r"(?is)<noinclude\s*>.*", "", text)
    text = re.sub(r"(?s)<!--.*", "", text)
    onlys = re.findall(r"(?is)<onlyinclude\s*>(.*?)</onlyinclude\s*>", text)
    if onlys:
        text = "".join(onlys)
    return re.sub(r"(?is)<\s*(/\s*)?includeonly\s*(/\s*)?>", "", text)


def make_dump(pages, path):
    parts = ['<mediawiki xmlns="http://www.mediawiki.org/xml/export-0.10/" version="0.10" xml:lang="en">\n']
    for p in pages:
        parts.append("<page>\n<title>%s</title>\n<ns>%d</ns>\n<id>1</id>\n" % (escape(p["title"]), p["ns"]))
        if p["redirect"] is not None:
            parts.append('<redirect title="%s" />\n' % escape(p["redirect"], {'"': "&quot;"}))
        parts.append("<revision><id>2</id><model>%s</model><format>text/x-wiki</format>" % p["model"])
        parts.append('<text xml:space="preserve">%s</text></revision>\n</page>\n' % escape(p["body"]))
    parts.append("</mediawiki>\n")
    with bz2.open(path, "wt", encoding="utf-8") as f:
        f.write("".join(parts))


def expected(pages, selected):
    out = {}
    for p in pages:
        t, ns = p["title"], p["ns"]
        if ns not in selected or t.endswith("/documentation") or "/testcases" in t:
            continue
        if p["redirect"] is None and p["model"] not in ("wikitext", "Scribunto", "json"):
            continue
        prefix = (NS.get(ns, "") + ":") if ns != 0 else ""
        key = t if (ns == 0 or t.startswith(prefix)) else prefix + t
        if key.startswith("Main:"):
            key = key[5:]
        if p["redirect"] is not None:
            row = (None, p["redirect"], p["model"])
        else:
            body = p["body"]
            if ns == TEMPLATE_NS:
                body = ref_body(body)
            row = (body, None, p["model"])
        out[(key, ns)] = row          # a later page with the same title replaces the earlier one
    tl = NS[TEMPLATE_NS]
    for name, body in {"!": "|", "=": "=", "((": "&lbrace;&lbrace;", "))": "&rbrace;&rbrace;"}.items():
        out.setdefault((f"{tl}:{name}", TEMPLATE_NS), (body, None, "wikitext"))
    return out


ndumps = 25 if tier == "quick" else 600
for di in range(ndumps):
    pages = []
    for _ in range(rng.randint(1, 12)):
        ns = rng.choice(NSIDS)
        base = rng.choice(BASES)
        title = base if ns == 0 else NS.get(ns, "X") + ":" + base
        if base == "Main:Foo" and ns != 0:
            title = NS.get(ns, "X") + ":Foo"
        redirect = None
        if rng.random() < 0.2:
            redirect = (NS.get(ns, "") + ":" if ns else "") + rng.choice(BASES[:4])
        pages.append({"title": title, "ns": ns, "redirect": redirect, "model": rng.choice(MODELS if rng.random() < 0.4 else MODELS[:1]),
                      "body": rng.choice(BODIES)})
    if di == 0:
        # deterministic: every body once as a template and once as a main-namespace page, every namespace selected
        tl = NS[TEMPLATE_NS]
        pages = [{"title": f"{tl}:B{i}", "ns": TEMPLATE_NS, "redirect": None, "model": "wikitext", "body": b}
                 for i, b in enumerate(BODIES)]
        pages += [{"title": f"B{i}", "ns": 0, "redirect": None, "model": "wikitext", "body": b} for i, b in enumerate(BODIES)]
        # the same title twice with a different kind of entry: the later entry replaces the earlier one completely
        pages += [{"title": "Dup", "ns": 0, "redirect": None, "model": "wikitext", "body": "first text"},
                  {"title": "Dup", "ns": 0, "redirect": "Foo", "model": "wikitext", "body": ""},
                  {"title": "Dup2", "ns": 0, "redirect": "Foo", "model": "wikitext", "body": ""},
                  {"title": "Dup2", "ns": 0, "redirect": None, "model": "wikitext", "body": "second text"},
                  {"title": f"{tl}:Dup3", "ns": TEMPLATE_NS, "redirect": None, "model": "wikitext", "body": "t<noinclude>d</noinclude>"},
                  {"title": f"{tl}:Dup3", "ns": TEMPLATE_NS, "redirect": f"{tl}:B0", "model": "wikitext", "body": ""}]
    if rng.random() < 0.3:
        pages.append(dict(rng.choice(pages), body="second version"))       # duplicate title
    if rng.random() < 0.3:
        d = dict(rng.choice(pages))                                        # duplicate title, other kind of entry
        d["redirect"], d["body"] = (None, "now a page") if d["redirect"] is not None else ("Foo", "")
        pages.append(d)
    if rng.random() < 0.3:
        tl = NS[TEMPLATE_NS]
        pages.append({"title": f"{tl}:!", "ns": TEMPLATE_NS, "redirect": None, "model": "wikitext", "body": "custom bang"})
    selected = set(rng.sample(NSIDS, rng.randint(1, len(NSIDS))))
    if di == 0:
        selected = set(NSIDS)
    path = os.path.join(TMP, f"d{di % 4}.xml.bz2")
    make_dump(pages, path)
    with quiet_stdout():
        ctx = Wtp(db_path=os.path.join(TMP, f"db{di % 4}.sqlite"), quiet=True)
    for row in list(ctx.get_all_pages()):
        pass
    ctx.db_conn.execute("DELETE FROM pages")
    ctx.db_conn.commit()
    ctx.get_page.cache_clear()
    evaluations += 1
    if rng.random() < 0.5:
        # add-if-missing style lookups before anything is ingested
        ctx.page_exists(NS[TEMPLATE_NS] + ":!", TEMPLATE_NS)
        ctx.page_exists("Foo", 0)
    try:
        with quiet_stdout():
            parse_dump_xml(ctx, path, selected)
            add_default_templates(ctx)
    except Exception as ex:
        fail("dumpparser:ingest#no-exception", f"{type(ex).__name__}: {ex}", {"pages": pages, "selected": sorted(selected)}, type(ex).__name__)
        ctx.db_conn.close()
        continue
    got = {(p.title, p.namespace_id): (p.body, p.redirect_to, p.model) for p in ctx.get_all_pages()}
    want = expected(pages, selected)
    if got != want:
        lost = sorted(set(want) - set(got))
        extra = sorted(set(got) - set(want))
        diff = {k: (got[k], want[k]) for k in set(got) & set(want) if got[k] != want[k]}
        wc = "lost" if lost else ("extra" if extra else "altered")
        fail("dumpparser:ingest#store-equals-spec", f"lost {lost[:4]} extra {extra[:4]} altered {dict(list(diff.items())[:2])}",
             {"pages": pages[:12], "selected": sorted(selected)}, wc)
    distinct.add(tuple((p["title"], p["ns"], p["model"], p["redirect"], p["body"]) for p in pages) + (tuple(sorted(selected)),))
    if len(samples) < 2:
        samples.append({"pages": [(p["title"], p["ns"], p["model"]) for p in pages], "selected": sorted(selected)})
    ctx.db_conn.close()
# dedicated probe: two distinct main-namespace titles "Foo" and "Main:Foo"
path = os.path.join(TMP, "probe.xml.bz2")
make_dump([{"title": "Foo", "ns": 0, "redirect": None, "model": "wikitext", "body": "first"},
           {"title": "Main:Foo", "ns": 0, "redirect": None, "model": "wikitext", "body": "second"}], path)
with quiet_stdout():
    ctx = Wtp(db_path=os.path.join(TMP, "probe.sqlite"), quiet=True)
    parse_dump_xml(ctx, path, {0})
rows = sorted((p.title, p.body) for p in ctx.get_all_pages([0]))
evaluations += 1
if len(rows) != 2:
    fail("dumpparser:ingest#no-page-merged-into-another-title",
         f"dump pages 'Foo' and 'Main:Foo' (both ns 0) are stored as {rows}", {"titles": ["Foo", "Main:Foo"], "ns": 0},
         "merged:Main-prefix")
ctx.db_conn.close()
# a dump of a non-English wiki: pages and the default helper templates are stored under the LOCAL namespace names
for lang in (["de", "fr"] if tier == "quick" else ["de", "fr", "ru", "es", "zh", "pl", "fi"]):
    with quiet_stdout():
        cl = Wtp(db_path=os.path.join(TMP, f"l_{lang}.sqlite"), quiet=True, lang_code=lang)
    try:
        tns = cl.NAMESPACE_DATA["Template"]["id"]
        local = cl.LOCAL_NS_NAME_BY_ID[tns]
        lpages = [{"title": "Seite", "ns": 0, "redirect": None, "model": "wikitext", "body": "text"},
                  {"title": f"{local}:Bsp", "ns": tns, "redirect": None, "model": "wikitext", "body": "b<noinclude>d</noinclude>"},
                  {"title": f"{local}:((", "ns": tns, "redirect": None, "model": "wikitext", "body": "own lbrace"}]
        lpath = os.path.join(TMP, f"l_{lang}.xml.bz2")
        make_dump(lpages, lpath)
        with quiet_stdout():
            parse_dump_xml(cl, lpath, {0, tns})
            add_default_templates(cl)
        got = {(p.title, p.namespace_id): (p.body, p.redirect_to, p.model) for p in cl.get_all_pages()}
        want = {("Seite", 0): ("text", None, "wikitext"), (f"{local}:Bsp", tns): ("b", None, "wikitext"),
                (f"{local}:((", tns): ("own lbrace", None, "wikitext")}
        for nm, body in {"!": "|", "=": "=", "))": "&rbrace;&rbrace;"}.items():
            want[(f"{local}:{nm}", tns)] = (body, None, "wikitext")
        evaluations += 1
        if got != want:
            fail("dumpparser:ingest#store-equals-spec", f"lang_code={lang!r}: lost {sorted(set(want) - set(got))[:4]} extra "
                 f"{sorted(set(got) - set(want))[:4]}", {"lang_code": lang, "pages": lpages}, "lost" if set(want) - set(got) else "extra")
    except Exception as ex:
        fail("dumpparser:ingest#no-exception", f"lang_code={lang!r}: {type(ex).__name__}: {ex}", {"lang_code": lang}, type(ex).__name__)
    finally:
        cl.db_conn.close()
shutil.rmtree(TMP, ignore_errors=True)
# F: every shipped namespaces.json gives each namespace id and each name once (ingestion stores a page under the local
# name of its namespace id: a duplicated id would file pages under another namespace's name)
import json as _json
import wikitextprocessor as _wp
for f_ in sorted((Path(_wp.__file__).parent / "data").glob("*/namespaces.json")):
    d_ = _json.loads(f_.read_text(encoding="utf-8"))
    ids_ = [v["id"] for v in d_.values()]
    nm_ = [v["name"] for v in d_.values() if v["name"]]
    evaluations += 1
    if len(ids_) != len(set(ids_)) or len(nm_) != len(set(nm_)):
        dup = sorted({i for i in ids_ if ids_.count(i) > 1}) + sorted({n for n in nm_ if nm_.count(n) > 1})
        fail("data:namespaces.json#namespace-ids-and-names-are-unique", f"{f_.parent.name}/namespaces.json: duplicates {dup}",
             {"file": f"{f_.parent.name}/namespaces.json", "duplicates": dup}, "duplicate-namespace")
emit({"evaluations": evaluations, "distinct_nontrivial": len(distinct),
      "rule": "distinct generated dumps (page list + selected namespace set)",
      "failures": list(failures.values()), "samples": samples,
      "bound": f"{ndumps} dumps of <= 14 pages over {len(NSIDS)} namespaces, {len(BASES)} title shapes, {len(BODIES)} bodies, "
               f"{len(MODELS)} content models, redirects, duplicate titles; real bz2 + lxml path; init_interwiki_map (network) not run"})
