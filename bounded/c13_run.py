"""C13 bounded tier: Wtp.expand against a reference selective expander over all
subsets of a small template library as selection x the boolean switches x
pages from the expansion grammar; hooks returning None or a marker.
Stand-in, never counted as proved."""
import itertools
import random
import sys

from bounded.harness import emit, new_ctx, payload, quiet_stdout
from bounded.harness import install_watchdog
install_watchdog()

P = payload()
tier = P.get("tier", "quick")
seed = int(P.get("seed", 0))
rng = random.Random(seed)

failures = {}
skipped = 0
evaluations = 0
distinct = set()
samples = []


def fail(ident, what, witness, wclass="value"):
    if ident not in failures:
        failures[ident] = {"ident": ident, "witness_class": wclass, "what": what, "witness": witness}


# ---- expansion AST: ("t", text) | ("call", name, [args]) | ("if", cond, then, else) | ("param", k, default|None)
def src(n):
    k = n[0]
    if k == "t":
        return n[1]
    if k == "seq":
        return "".join(src(x) for x in n[1])
    if k == "call":
        return "{{" + "|".join([n[1]] + [src(a) for a in n[2]]) + "}}"
    if k == "if":
        return "{{#if:" + src(n[1]) + "|" + src(n[2]) + "|" + src(n[3]) + "}}"
    if k == "param":
        return "{{{" + str(n[1]) + ("|" + src(n[2]) if n[2] is not None else "") + "}}}"
    raise AssertionError(n)


LIB = {
    "a": ("seq", [("t", "A"), ("param", 1, ("t", ""))]),
    "b": ("seq", [("t", "B"), ("call", "a", [("param", 1, ("t", "d"))])]),
    "c": ("seq", [("t", "C"), ("call", "b", [("t", "x")]), ("param", 2, ("t", ""))]),
    "f": ("seq", [("t", "F"), ("if", ("param", 1, ("t", "")), ("call", "a", [("t", "y")]), ("t", "n"))]),
}
FLAGGED = {"f"}          # stored with need_pre_expand = True
NAMES = sorted(LIB)


def has_if(n):
    k = n[0]
    if k == "if":
        return True
    if k == "call":
        return n[1] == "f" or any(has_if(a) for a in n[2])
    if k == "seq":
        return any(has_if(x) for x in n[1])
    if k == "param":
        return n[2] is not None and has_if(n[2])
    return False


class Skip(Exception):
    pass


class Ref:
    def __init__(self, E, N, pre_expand, parserfns, tfn, pfn, widen=False):
        self.E, self.N, self.pre, self.pf, self.tfn, self.pfn = E, N, pre_expand, parserfns, tfn, pfn
        self.widen = widen      # not the English Wiktionary: the body of a flagged template is expanded in full
        self.tcalls = []
        self.pcalls = []

    def selected(self, name):
        if name not in LIB:
            return False
        npe = name in FLAGGED
        if self.N is not None and name in self.N:
            return False
        return (self.E is not None and name in self.E) or npe

    def ex(self, n, frame, expand_all):
        k = n[0]
        if k == "t":
            return n[1]
        if k == "seq":
            return "".join(self.ex(x, frame, expand_all) for x in n[1])
        if k == "param":
            if frame is None:
                # page level: resolved against the empty frame
                return self.ex(n[2], frame, expand_all) if n[2] is not None else src(n)
            if n[1] in frame:
                return frame[n[1]]
            return self.ex(n[2], frame, expand_all) if n[2] is not None else "{{{%s}}}" % n[1]
        if k == "if":
            if not self.pf:
                # a disabled parser function is re-emitted as a call: its first argument sits in the
                # name position and is expanded like a name (per the current mode), the others stay raw
                # (blanks around it are dropped with the name's: documented deviation, see the dedicated probe below)
                return "{{#if:" + self.ex(n[1], frame, expand_all).strip() + "|" + self.raw(n[2], frame) + "|" + \
                    self.raw(n[3], frame) + "}}"
            c = self.ex(n[1], frame, expand_all)
            if "{{" in c:
                # a call left unexpanded inside the first argument of an enabled parser function:
                # outside the envelope (see the dedicated known-finding probe below)
                raise Skip()
            c = c.strip()
            return self.ex(n[2] if c else n[3], frame, True).strip()
        if k == "call":
            name = n[1]
            if not self.pf and any(has_if(a) for a in n[2]):
                raise Skip()      # disabled parser function inside a call argument: see the dedicated probe
            if name not in LIB:
                if expand_all:
                    args = [self.ex(a, frame, True) for a in n[2]]
                    self._hooks_missing(name, args)
                    t = "[[:Template:%s]]" % name if self.tfn_result(name) is None else self.tfn_result(name)
                    if self.pfn is not None and t:
                        self.pcalls.append((name, tuple(sorted({i + 1: v for i, v in enumerate(args)}.items())), t))
                        if self.pfn.get(name) is not None:
                            t = self.pfn[name]
                    return t
                return "{{" + "|".join([name] + [self.ex(a, frame, expand_all) for a in n[2]]) + "}}"
            if not expand_all and not self.selected(name):
                return "{{" + "|".join([name] + [self.ex(a, frame, expand_all) for a in n[2]]) + "}}"
            args = [self.ex(a, frame, True) for a in n[2]]
            ht = {i + 1: v for i, v in enumerate(args)}
            self.tcalls.append((name, tuple(sorted(ht.items()))))
            t = self.tfn_result(name)
            if t is None:
                # en/wiktionary: need_pre_expand does not widen the mode; elsewhere the body of a flagged template
                # (and only that body) is expanded in full
                inner_all = expand_all or (self.widen and name in FLAGGED)
                t = self.ex(LIB[name], ht, inner_all)
            if self.pfn is not None and t:
                self.pcalls.append((name, tuple(sorted(ht.items())), t))
                if self.pfn.get(name) is not None:
                    t = self.pfn[name]
            return t
        raise AssertionError(n)

    def _hooks_missing(self, name, args):
        ht = {i + 1: v for i, v in enumerate(args)}
        self.tcalls.append((name, tuple(sorted(ht.items()))))

    def tfn_result(self, name):
        return None if self.tfn is None else self.tfn.get(name)

    def raw(self, n, frame):
        """source text of a node that is not expanded; parameters of the current frame were already
        substituted before the body is expanded"""
        k = n[0]
        if k == "t":
            return n[1]
        if k == "seq":
            return "".join(self.raw(x, frame) for x in n[1])
        if k == "param":
            if frame is None:
                return src(n)
            if n[1] in frame:
                return frame[n[1]]
            return self.raw(n[2], frame) if n[2] is not None else "{{{%s}}}" % n[1]
        if k == "call":
            return "{{" + "|".join([n[1]] + [self.raw(a, frame) for a in n[2]]) + "}}"
        if k == "if":
            return "{{#if:" + self.raw(n[1], frame) + "|" + self.raw(n[2], frame) + "|" + self.raw(n[3], frame) + "}}"


def gen(depth):
    r = rng.random()
    if depth == 0 or r < 0.3:
        return ("t", rng.choice(["x", "yy", "z w", "q"]))
    if r < 0.8:
        name = rng.choice(NAMES + ["nosuch"])
        nargs = rng.choice([0, 1, 2])
        return ("call", name, [gen(depth - 1) for _ in range(nargs)])
    if r < 0.9:
        return ("if", gen(depth - 1), gen(depth - 1), ("t", "e"))
    return ("seq", [gen(depth - 1), ("t", " "), gen(depth - 1)])


ctx = new_ctx({})
ctx_other = new_ctx({}, project="wikipedia")
for c_ in (ctx, ctx_other):
    for name, body in LIB.items():
        c_.add_page("Template:" + name, 10, src(body), need_pre_expand=name in FLAGGED)
    c_.db_conn.commit()
CONTEXTS = [(ctx, False), (ctx_other, True)]

pages = [("call", n, []) for n in NAMES] + [("call", n, [("t", "p")]) for n in NAMES] + \
        [("call", "c", [("call", "a", [("t", "1")]), ("call", "b", [])]),
         ("seq", [("call", "a", []), ("t", " "), ("call", "f", [("call", "b", [])])]),
         ("if", ("call", "a", []), ("call", "b", [("t", "k")]), ("t", "e")),
         ("call", "nosuch", [("call", "a", [])]),
         # a flagged template followed by unselected calls on the same level / inside a later argument
         ("seq", [("call", "f", [("t", "p")]), ("t", " "), ("call", "a", [("t", "x")])]),
         ("seq", [("call", "f", []), ("t", " "), ("call", "c", [("call", "b", [])]), ("call", "a", [])])]
pages += [gen(3) for _ in range(25 if tier == "quick" else 300)]

subsets = [None] + [frozenset(c) for k in range(len(NAMES) + 1) for c in itertools.combinations(NAMES, k)]
if tier == "quick":
    subsets = [None, frozenset(), frozenset({"a"}), frozenset({"b"}), frozenset({"a", "c"}), frozenset(NAMES),
               frozenset({"f"}), frozenset({"b", "f"})]
hook_modes = [(None, None), ({}, None), ({"a": "<M>"}, None), ({}, {}), ({}, {"b": "<P>"}), ({}, {"b": "", "a": ""}),
              ({"b": ""}, {})]

for page in pages:
    text = src(page)
    for E in subsets:
        for N in (subsets if tier != "quick" else [None, frozenset(), frozenset({"a"}), frozenset({"b", "f"})]):
            for pre, pf in itertools.product([True, False], repeat=2):
                for (tfn, pfn), (ctx, widen) in itertools.product(
                        (hook_modes if (E in (None, frozenset({"a"})) or tier != "quick") else hook_modes[:2]), CONTEXTS):
                    if widen and tier == "quick" and not (pre and (tfn, pfn) in hook_modes[:2]):
                        continue
                    ref = Ref(E, N, pre, pf, tfn, pfn, widen)
                    try:
                        want = ref.ex(page, None, not pre)
                    except Skip:
                        skipped += 1
                        continue
                    got_t, got_p = [], []

                    def dec(ht):
                        return tuple(sorted((k, ctx._finalize_expand(v)) for k, v in ht.items()))

                    def template_fn(name, ht, got_t=got_t, tfn=tfn):
                        got_t.append((name, dec(ht)))
                        return tfn.get(name)

                    def post_template_fn(name, ht, t, got_p=got_p, pfn=pfn):
                        # the hook sees the expansion in the expander's internal encoding; decode the
                        # placeholders of constructs that were left unexpanded before comparing
                        got_p.append((name, dec(ht), ctx._finalize_expand(t)))
                        return pfn.get(name)

                    kw = dict(pre_expand=pre, expand_parserfns=pf, expand_invoke=False,
                              templates_to_expand=set(E) if E is not None else None,
                              templates_to_not_expand=set(N) if N is not None else None)
                    if tfn is not None:
                        kw["template_fn"] = template_fn
                    if pfn is not None:
                        kw["post_template_fn"] = post_template_fn
                    ctx.start_page("Tt")
                    evaluations += 1
                    wit = {"page": text, "project": "wikipedia" if widen else "wiktionary",
                           "templates_to_expand": sorted(E) if E is not None else None,
                           "templates_to_not_expand": sorted(N) if N is not None else None, "pre_expand": pre,
                           "expand_parserfns": pf, "template_fn": tfn, "post_template_fn": pfn}
                    try:
                        with quiet_stdout():
                            got = ctx.expand(text, **kw)
                    except Exception as ex:
                        fail("core:Wtp.expand#no-exception", f"{type(ex).__name__}: {ex}", wit, type(ex).__name__)
                        continue
                    if got != want:
                        fail("core:Wtp.expand#equals-reference-selective-expansion", f"got {got!r} want {want!r}", wit)
                    if tfn is not None and sorted(got_t) != sorted(ref.tcalls):
                        fail("core:Wtp.expand#template_fn-called-once-per-expanded-call-with-final-arguments",
                             f"calls {sorted(got_t)} want {sorted(ref.tcalls)}", wit, "hook-calls")
                    if pfn is not None and sorted(got_p) != sorted(ref.pcalls):
                        fail("core:Wtp.expand#post_template_fn-sees-default-expansion",
                             f"calls {sorted(got_p)} want {sorted(ref.pcalls)}", wit, "hook-calls")
                    if pre and (E is None or not E) and not pf and tfn is None and pfn is None and \
                            not any(nm in text for nm in ("{{f",)):
                        if got != text:
                            fail("core:Wtp.expand#nothing-selected-returns-text-unchanged",
                                 f"got {got!r} for {text!r}", wit)
                    distinct.add((text, E, N, pre, pf, str(tfn), str(pfn), widen))
    if len(samples) < 3:
        samples.append({"page": text})

ctx = CONTEXTS[0][0]
# dedicated probe (outside the grammar's envelope): first argument of an enabled parser function in
# pre-expand mode
ctx.add_page("Template:e", 10, "")
ctx.start_page("Tt")
with quiet_stdout():
    r1 = ctx.expand("{{#if:{{e}}|T|F}}", pre_expand=True)
    r2 = ctx.expand("{{#if:{{e}}|T|F}}", pre_expand=False)
evaluations += 2
if r1 != r2:
    fail("core:Wtp.expand#parserfn-first-argument-in-pre_expand-mode",
         f"{{{{#if:{{{{e}}}}|T|F}}}} with template e empty: pre_expand=True gives {r1!r}, full expansion gives {r2!r}",
         {"page": "{{#if:{{e}}|T|F}}", "pre_expand": True}, "first-arg-not-expanded")

with quiet_stdout():
    ctx.start_page("Tt")
    r3 = ctx.expand("{{a|{{#if:x|{{a|y}}|n}}}}", expand_parserfns=False)
evaluations += 1
if "Template loop detected" in r3:
    fail("core:Wtp.expand#disabled-parserfn-inside-template-argument",
         f"{{{{a|{{{{#if:x|{{{{a|y}}}}|n}}}}}}}} with expand_parserfns=False gives {r3!r}",
         {"page": "{{a|{{#if:x|{{a|y}}|n}}}}", "expand_parserfns": False}, "false-loop-detection")

# template_fn is called exactly once per expanded call, also for calls inside parser-function arguments that are
# looked at more than once (#switch fall-through labels / defaults), and sees names like "0" as strings
ctx.add_page("Template:id0", 10, "<{{{0|none}}}>")
for txt, want_calls in (("{{#switch:q|a=1|{{a|s}}}}", [("a", {1: "s"})]), ("{{#switch:q|a=1|b|{{a|t}}}}", [("a", {1: "t"})]),
                        ("{{#switch:q|{{a|u}}=1|#default={{a|v}}}}", [("a", {1: "u"}), ("a", {1: "v"})]),
                        ("{{#if:{{a|w}}|{{a|x}}|{{a|y}}}}", [("a", {1: "w"}), ("a", {1: "x"})]),
                        ("{{id0|0=z}}", [("id0", {"0": "z"})]), ("{{id0|00=z|1=y}}", [("id0", {"00": "z", 1: "y"})]),
                        # named values that span several lines, names with inner blanks
                        ("{{a|k=l1\nl2}}", [("a", {"k": "l1\nl2"})]), ("{{a|k = l1\n\nl2 |m=\nx\n}}", [("a", {"k": "l1\n\nl2", "m": "x"})]),
                        ("{{a|first name=v\nw|p}}", [("a", {"first name": "v\nw", 1: "p"})])):
    calls = []
    ctx.start_page("Tt")
    with quiet_stdout():
        out = ctx.expand(txt, template_fn=lambda n, ht: calls.append((n, {k: ctx._finalize_expand(v) for k, v in ht.items()})))
    evaluations += 1
    if calls != want_calls:
        fail("core:Wtp.expand#template_fn-called-once-per-expanded-call-with-final-arguments",
             f"{txt!r}: calls {calls} want {want_calls}", {"page": txt}, "hook-calls")
    if txt == "{{id0|0=z}}" and out != "<z>":
        fail("core:Wtp.expand#equals-reference-selective-expansion", f"{txt!r} -> {out!r} want '<z>'", {"page": txt})
# the flag that selects a template is the one of the LAST add_page for that title
for flags, want in (((True, False), "{{rf|x}}"), ((False, True), "<x>"), ((True, True), "<x>"), ((False, False), "{{rf|x}}")):
    for fl in flags:
        ctx.add_page("Template:rf", 10, "<{{{1}}}>", need_pre_expand=fl)
    ctx.start_page("Tt")
    with quiet_stdout():
        out = ctx.expand("{{rf|x}}", pre_expand=True)
    evaluations += 1
    if out != want:
        fail("core:Wtp.expand#equals-reference-selective-expansion",
             f"template added with need_pre_expand={flags[0]} and again with {flags[1]}: {{{{rf|x}}}} -> {out!r} want {want!r}",
             {"page": "{{rf|x}}", "pre_expand": True, "need_pre_expand_history": list(flags)}, "stale-flag")
# a real call and a look-alike defused with <nowiki/> on the same page (either order): the call is expanded, hooks fire
# once, the look-alike stays text
for txt in ("{{a|x}} {<nowiki/>{a|x}}", "{<nowiki/>{a|x}} {{a|x}}", "{{a|x}<nowiki/>} {{a|x}} {{a|x}}"):
    calls = []
    ctx.start_page("Tt")
    with quiet_stdout():
        out = ctx.expand(txt, template_fn=lambda n, ht: calls.append(n))
    evaluations += 1
    n_real = txt.count("{{a|x}}")
    if out.count("Ax") != n_real or len(calls) != n_real or "{a|x}" not in ctx._finalize_expand(out).replace("&lbrace;", "{").replace("&rbrace;", "}").replace("&vert;", "|"):
        fail("core:Wtp.expand#template_fn-called-once-per-expanded-call-with-final-arguments",
             f"{txt!r} -> {out!r}, hook calls {calls}", {"page": txt}, "hook-calls")
# selection looks the template up like a call does: first letter case-insensitive, the rest exact
ctx.add_page("Template:LangHdr", 10, "<{{{1|}}}>", need_pre_expand=True)
ctx.add_page("Template:En-IPA", 10, "[{{{1|}}}]")
for txt, kw_, want in (("{{langHdr|x}}", dict(pre_expand=True), "<x>"), ("{{en-IPA|y}}", dict(pre_expand=True, templates_to_expand={"en-IPA"}), "[y]"),
                       ("{{en-ipa|y}}", dict(pre_expand=True, templates_to_expand={"en-ipa"}), "{{en-ipa|y}}"),
                       ("{{LangHdr|z}} {{langhdr|w}}", dict(pre_expand=True), "<z> {{langhdr|w}}")):
    calls = []
    ctx.start_page("Tt")
    with quiet_stdout():
        out = ctx.expand(txt, template_fn=lambda n, ht: calls.append(n), **kw_)
    evaluations += 1
    if out != want:
        fail("core:Wtp.expand#equals-reference-selective-expansion", f"{txt!r} {kw_} -> {out!r} want {want!r} (hook calls {calls})",
             {"page": txt, "options": {k: (sorted(v) if isinstance(v, set) else v) for k, v in kw_.items()}}, "name-lookup")
# a disabled parser function is re-emitted with its first argument as written
for txt in ("{{#if: x |a|b}}", "{{#if:x |a}}", "{{lc: X }}"):
    ctx.start_page("Tt")
    with quiet_stdout():
        r = ctx.expand(txt, expand_parserfns=False)
    evaluations += 1
    if r != txt:
        fail("core:Wtp.expand#disabled-parserfn-first-argument-as-written", f"{txt!r} -> {r!r}",
             {"page": txt, "expand_parserfns": False}, "first-arg-blanks-dropped")
# names written with blanks or a subst: prefix are re-emitted as written when the call is not selected
for txt in ("{{ a |x}}", "{{safesubst:a|x}}", "{{subst:b}}", "{{a<noinclude/>|x}}", "{{ b }}"):
    ctx.start_page("Tt")
    with quiet_stdout():
        r = ctx.expand(txt, pre_expand=True, templates_to_expand=set())
    evaluations += 1
    if r != txt:
        fail("core:Wtp.expand#unselected-call-is-emitted-with-the-same-name", f"{txt!r} -> {r!r}", {"page": txt, "pre_expand": True},
             "name-changed")
# the post hook sees the default expansion (with its automatic newline) and its own result is used verbatim
ctx.add_page("Template:li", 10, "{{{1}}}")
ctx.start_page("Tt")
seen = []
with quiet_stdout():
    r6 = ctx.expand("x{{li|* item}}", post_template_fn=lambda n, ht, t: seen.append(t))
    r7 = ctx.expand("x{{li|y}}", post_template_fn=lambda n, ht, t: "* verbatim")
evaluations += 2
if seen != ["\n* item"] or r6 != "x\n* item":
    fail("core:Wtp.expand#post_template_fn-sees-default-expansion", f"hook saw {seen}, result {r6!r}", {"page": "x{{li|* item}}"})
if r7 != "x* verbatim":
    fail("core:Wtp.expand#post_template_fn-result-used-verbatim", f"gives {r7!r}", {"page": "x{{li|y}}"})
with quiet_stdout():
    ctx.start_page("Tt")
    r4 = ctx.expand("x{{a}}", template_fn=lambda n, ht: "*item")
    r5 = ctx.expand("x{{a}}", post_template_fn=lambda n, ht, t: "*item")
evaluations += 2
if r4 != "x*item":
    fail("core:Wtp.expand#template_fn-result-used-verbatim",
         f"template_fn returning '*item' for x{{{{a}}}} gives {r4!r} (post_template_fn's value is verbatim: {r5!r})",
         {"page": "x{{a}}", "template_fn": "lambda n, ht: '*item'"}, "newline-inserted")
if r5 != "x*item":
    fail("core:Wtp.expand#post_template_fn-result-used-verbatim", f"gives {r5!r}", {"page": "x{{a}}"})

# ---- the loop detector decides whether a selected call is expanded or replaced by an error element: it reports a loop
# exactly when the frame stack ends in k >= 2 repetitions of a block whose first frame is not an argument-value frame
# (declarative restatement, all stacks up to the length bound over a small frame alphabet), and a call nested in its own
# argument -- directly, through a parser function or through a link -- is not a loop
import itertools as _it
from wikitextprocessor.core import detect_expand_template_loop as _detect


def _loop_spec(st):
    n = len(st)
    if n < 2 or st[-1] not in st[:-1]:
        return False
    for p_ in range(1, n // 2 + 1):
        for i in range(0, n - p_):
            if (n - i) % p_ == 0 and not st[i].startswith("ARGVAL-") and all(st[j] == st[j + p_] for j in range(i, n - p_)):
                return True
    return False


FRAMES = ["Template:w", "Template:v", "ARGVAL-1", "ARGVAL-k", "#if"]
n_loop = 0
for n_ in range(0, (7 if tier == "quick" else 9)):
    for st in _it.product(FRAMES, repeat=n_):
        n_loop += 1
        try:
            g_ = _detect(list(st))
        except Exception as ex_:
            g_ = f"<<{type(ex_).__name__}>>"
        if g_ is not _loop_spec(st):
            fail("core:detect_expand_template_loop#equals-declarative-definition",
                 f"detect_expand_template_loop({list(st)}) = {g_!r}, definition {_loop_spec(st)}", {"stack": list(st)}, "loop-detector")
            break
evaluations += n_loop
ctx.add_page("Template:wrap", 10, "({{{1}}})")
for txt, want in (("{{wrap|{{wrap|{{wrap|x}}}}}}", "(((x)))"),
                  ("{{wrap|{{#if:1|{{wrap|{{#if:1|{{wrap|x}}}}}}}}}}", "(((x)))"),
                  ("{{wrap|[[t|{{wrap|[[t|{{wrap|x}}]]}}]]}}", "([[t|([[t|(x)]])]])"),
                  ("{{wrap|{{#if:1|{{wrap|{{#if:1|{{wrap|{{#if:1|{{wrap|y}}}}}}}}}}}}}}", "((((y))))")):
    ncalls = []
    ctx.start_page("Tt")
    with quiet_stdout():
        out = ctx.expand(txt, template_fn=lambda n, ht: ncalls.append(n))
    evaluations += 1
    if out != want or len(ncalls) != txt.count("{{wrap"):
        fail("core:Wtp.expand#equals-reference-selective-expansion",
             f"{txt!r} -> {out!r} want {want!r}; template_fn called {len(ncalls)} times for {txt.count('{{wrap')} calls",
             {"page": txt}, "nested-in-own-argument")

emit({"skipped_outside_envelope": skipped, "evaluations": evaluations, "distinct_nontrivial": len(distinct),
      "rule": "distinct (page, templates_to_expand, templates_to_not_expand, pre_expand, expand_parserfns, hook mode) tuples",
      "failures": list(failures.values()), "samples": samples,
      "bound": f"{len(pages)} pages (grammar depth <= 3) x {len(subsets)} selections x not-expand sets x 4 switch "
               f"combinations x {len(hook_modes)} hook modes (incl. hooks returning the empty string) x 2 wiki "
               f"configurations (en/wiktionary, en/wikipedia) over a library of {len(LIB)} templates (one flagged "
               "need_pre_expand); expand_invoke=False throughout (no Lua offline)"})
