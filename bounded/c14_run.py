"""C14 bounded tier: the three views of a template call's arguments (parsed
node, template_fn during expansion, Lua frame built by make_frame) on
enumerated argument lists.  The Lua sandbox libraries are absent offline: the
frame is captured with a stub lua_invoke on a bare LuaRuntime (named in the
evidence); the Lua-side trim of flagged values is applied by the harness.
Also validates the assumed contracts of the two argument-name regexes by
exhaustive enumeration.  Stand-in, never counted as proved."""
import itertools
import random
import re
import sys

from bounded.harness import emit, new_ctx, payload, quiet_stdout
from bounded.harness import install_watchdog
install_watchdog()

P = payload()
tier = P.get("tier", "quick")
seed = int(P.get("seed", 0))
rng = random.Random(seed)

from wikitextprocessor import luaexec  # noqa: E402

failures = {}
evaluations = 0
distinct = set()
samples = []


def fail(ident, what, witness, wclass="value"):
    if ident not in failures:
        failures[ident] = {"ident": ident, "witness_class": wclass, "what": what, "witness": witness}


# atoms: positional, named, numeric-named, with blanks / newlines (plain-text names and values)
ATOMS = ["v", " v ", "\nv", "w x", "k=v", " k = v ", "k=\nv", "n m = v w ", "2=v", " 3 = v ", "02=v", "j=a b", "0=z",
         # blanks other than ASCII ones around names and values (str.strip / \s treat them as blanks)
         "u=v\u00a0", "\u2009" + "4" + "\u2009=b", "\u3000w\u3000=\u00a0x y\u2009",
         # a nested construct in one argument, line-start markup characters after an inner newline in another
         "[[x]]", "m=[[x|y]]", "p=a\n b", "q=a\n* b", "a\n: b", "r=[http://e.org t]",
         "2023=x", "1001=y", "v\n", "k=v\n", "a\r\nb", "c=x\r\ny", "first_name=v", "_x=w", "sort_key=a", "sort key=b", " 5 = e", "6\n=f",
         # names written in non-ASCII decimal digits
         "\u0662=b", "\uff13=c"]


def name_of(atom):
    return atom.split("=", 1)[0].strip() if "=" in atom else None


ctx = new_ctx({"T": "x"})
ctx.lua = luaexec.lupa.LuaRuntime()
ctx.lua_env_stack.append(ctx.lua.table())
captured = {}


def fake_invoke(modname, modfn, frame, title, timeout):
    captured["frame"] = frame
    return (True, "ok")


ctx.lua_invoke = fake_invoke


def lua_view(args):
    ctx.start_page("Tt")
    ctx.lua_env_stack.append(ctx.lua.table())
    with quiet_stdout():
        luaexec.call_lua_sandbox(ctx, ["m", "f"] + list(args), lambda x: x, None, None)
    fr = captured["frame"]
    out = {}
    for k, v in fr["args"].items():
        val, named = v
        out[k] = val.strip() if named else val        # _sandbox_phase2.lua trims values flagged as named
    return out


# ---- the frame as a module really sees it: the repository's own sandbox and frame code, with a stand-in for the one
# absent Scribunto library (ustring); ASCII argument lists only (the stand-in is byte based)
from bounded.c06_lua import USTRING_STUB
_orig_loader = luaexec.lua_loader


def _loader(c_, modname):
    r_ = _orig_loader(c_, modname)
    if r_ is None and modname == "ustring:ustring":
        return USTRING_STUB
    return r_


ARGDUMP = r"""
local p = {}
local function hex(s)
    return (s:gsub(".", function(c) return string.format("%02x", c:byte()) end))
end
function p.dump(frame)
    local out = {}
    for k, v in pairs(frame.args) do
        out[#out + 1] = type(k):sub(1, 1) .. hex(tostring(k)) .. "-" .. hex(tostring(v))
    end
    table.sort(out)
    return "[" .. table.concat(out, ".") .. "]"
end
return p
"""
real_ctx = None
real_lua_state = {"ok": True, "n": 0}


def real_lua_view(args):
    global real_ctx
    if real_ctx is None:
        luaexec.lua_loader = _loader
        real_ctx = new_ctx({})
        real_ctx.add_page("Module:argdump", real_ctx.NAMESPACE_DATA["Module"]["id"], ARGDUMP, model="Scribunto")
    real_ctx.start_page("Tt")
    with quiet_stdout():
        out = real_ctx.expand("{{#invoke:argdump|dump|" + "|".join(args) + "}}")
    if not (out.startswith("[") and out.endswith("]")):
        raise RuntimeError("module did not run: " + out[:120])
    d = {}
    for item in filter(None, out[1:-1].split(".")):
        k_, v_ = item[1:].split("-")
        k_ = bytes.fromhex(k_).decode("utf-8")
        d[int(k_) if item[0] == "n" else k_] = bytes.fromhex(v_).decode("utf-8")
    real_lua_state["n"] += 1
    return d


def renumbered(args, clamp=False):
    """make_frame's numbering (known finding): after an explicit numeric name k the positional counter jumps to k + 1"""
    out, num = {}, 1
    for a in args:
        if "=" in a:
            k, v = a.split("=", 1)
            k = k.strip()
            if k.isdecimal() and int(k) > 0:
                k = int(k)
                if clamp and k > 1000:
                    k = 1000            # second known deviation: numeric names above 1000 are clamped (with a warning)
                if num <= k:
                    num = k + 1
            else:
                k = re.sub(r"\s+", " ", k)
            out[k] = v.strip()
        else:
            out[num] = a
            num += 1
    return out


def expander_view(args):
    seen = {}

    def tf(name, ht):
        if name == "T":
            # the hook sees the expander's internal encoding of nested constructs: decode before comparing
            seen.update({k: (ctx._finalize_expand(v) if isinstance(v, str) else v) for k, v in ht.items()})
        return ""
    ctx.start_page("Tt")
    with quiet_stdout():
        ctx.expand("{{T|" + "|".join(args) + "}}", template_fn=tf)
    return seen


def nested_view(args):
    """the same call written inside another template's body, as the expander hands it to template_fn"""
    seen = {}

    def tf(name, ht):
        if name == "T":
            seen.update({k: (ctx._finalize_expand(v) if isinstance(v, str) else v) for k, v in ht.items()})
            return ""
        return None
    ctx.add_page("Template:Wn", 10, "{{T|" + "|".join(args) + "}}")
    ctx.start_page("Tt")
    with quiet_stdout():
        ctx.expand("{{Wn}}", template_fn=tf)
    return seen


def parser_view(args, **pkw):
    ctx.start_page("Tt")
    with quiet_stdout():
        root = ctx.parse("{{T|" + "|".join(args) + "}}", **pkw)
    node = root.children[0]

    nested_ok = set()          # keys of arguments whose own source contains a nested construct
    num = 1
    for a in args:
        if "=" in a:
            kk = a.split("=", 1)[0].strip()
            kk = int(kk) if kk.isdecimal() and int(kk) > 0 else re.sub(r"\s+", " ", kk)
        else:
            kk, num = num, num + 1
        if "[" in a or "{{" in a:
            nested_ok.add(kk)

    def plain(v, k=None):
        # a plain-text argument must be exposed as ONE string; an argument that contains a nested construct is
        # rendered back to wikitext for the comparison
        if isinstance(v, str):
            return v
        if k is not None and k not in nested_ok:
            return "<not a plain string: %s>" % ([type(x).__name__ if isinstance(x, str) else str(getattr(x, "kind", x))
                                                  for x in (v if isinstance(v, list) else [v])],)
        if isinstance(v, list):
            return "".join(plain(x) for x in v)
        return ctx.node_to_wikitext(v)
    first = {k: plain(v, k) for k, v in node.template_parameters.items()}
    # the usual "try: params[k] except KeyError" idiom on absent names must leave the view unchanged
    for k in ("absent-name", 97):
        try:
            node.template_parameters[k]
        except KeyError:
            pass
    again = {k: plain(v, k) for k, v in node.template_parameters.items()}
    if again != first:
        fail("c14:parser-view#stable-under-lookups-of-absent-names", f"{first} became {again}", {"args": args})
    return first


def expected(args):
    """the statement: integer keys for positional (numbered from 1, counting positional ones only) and
    positive numeric names, strings otherwise; named values trimmed, positional verbatim"""
    out = {}
    num = 1
    for a in args:
        if "=" in a:
            k, v = a.split("=", 1)
            k = k.strip()
            k = int(k) if k.isdecimal() and int(k) > 0 else re.sub(r"\s+", " ", k)
            out[k] = v.strip()
        else:
            out[num] = a
            num += 1
    return out


def distinct_names(args):
    keys = list(expected(args).keys())
    raw = sum(1 for a in args)
    return len(keys) == raw


maxlen = 2 if tier == "quick" else 3
lists = [list(c) for n in range(1, maxlen + 1) for c in itertools.product(ATOMS, repeat=n)]
lists += [[rng.choice(ATOMS) for _ in range(rng.randint(3, 6))] for _ in range(300 if tier == "quick" else 5000)]
for args in lists:
    if not distinct_names(args):
        continue
    want = expected(args)
    evaluations += 1
    try:
        views = {"parser": parser_view(args), "expander": expander_view(args), "lua": lua_view(args)}
        # the parsed node of a call that is left unexpanded in pre-expand mode exposes the same map
        pv2 = parser_view(args, pre_expand=True)
        if pv2 != views["parser"]:
            fail("c14:parser-view#same-map-with-pre_expand", f"plain parse {views['parser']} but parse(pre_expand=True) {pv2}",
                 {"args": args}, "pre-expand-view")
    except Exception as ex:
        fail("c14:views#no-exception", f"{type(ex).__name__}: {ex}", {"args": args}, type(ex).__name__)
        continue
    try:
        nv = nested_view(args)
    except Exception as ex:
        fail("c14:views#no-exception", f"nested view: {type(ex).__name__}: {ex}", {"args": args}, type(ex).__name__)
        nv = want
    if nv != want:
        norm = {k: (v.removesuffix("\n") if isinstance(v, str) and isinstance(k, int) else v) for k, v in want.items()}
        wc = "known-deviation:positional-value-loses-one-trailing-newline" if nv == norm else "value"
        fail("c14:nested-expander-view#keys-and-values-as-stated" + ("" if wc == "value" else "[trailing-newline]"),
             f"the call written in a template body: template_fn sees {nv} want {want}", {"args": args, "body": "{{T|" + "|".join(args) + "}}"}, wc)
    if real_lua_state["ok"] and all(ord(ch) < 128 for a in args for ch in a):
        try:
            rv = real_lua_view(args)
        except Exception as ex:
            real_lua_state["ok"] = False
            fail("c14:real-lua-view#module-runs", f"{type(ex).__name__}: {ex}", {"args": args}, "harness")
            rv = want
        if rv != want:
            def nl(d_):
                return {k: (v.removesuffix("\n") if isinstance(v, str) and isinstance(k, int) else v) for k, v in d_.items()}
            if rv == nl(want):
                sfx, wc = "[trailing-newline]", "known-deviation:positional-value-loses-one-trailing-newline"
            elif rv in (renumbered(args), nl(renumbered(args))):
                sfx, wc = "[renumbered]", "known-deviation:positional-renumbered-after-numeric-name"
            elif rv in (renumbered(args, True), nl(renumbered(args, True))):
                sfx, wc = "[numeric-name-above-1000]", "known-deviation:numeric-name-above-1000-clamped"
            else:
                sfx, wc = "", "value"
            fail("c14:real-lua-view#keys-and-values-as-stated" + sfx,
                 f"frame.args inside the real sandbox: {rv} want {want}", {"args": args}, wc)
    for vn, got in views.items():
        if got != want:
            # narrow classes for documented deviations
            norm = {k: (v.removesuffix("\n") if isinstance(v, str) and isinstance(k, int) else v) for k, v in want.items()}
            wc = "value"
            if got == norm:
                wc = "known-deviation:positional-value-loses-one-trailing-newline"
            fail(f"c14:{vn}-view#keys-and-values-as-stated" + ("" if wc == "value" else "[trailing-newline]"),
                 f"{vn} view {got} want {want}", {"args": args, "views": {k: str(v) for k, v in views.items()}}, wc)
    if views["parser"] != views["expander"] or views["expander"] != views["lua"]:
        if all(g == want or g == {k: (v.removesuffix('\n') if isinstance(v, str) and isinstance(k, int) else v)
                                  for k, v in want.items()} for g in views.values()):
            pass
        else:
            fail("c14:three-views-agree", f"{views}", {"args": args})
    distinct.add(tuple(args))
samples.append({"args": lists[len(lists) // 3]})

# ---- assumed regex contracts (validated by exhaustive enumeration against CPython's re)
EXP_RE = re.compile(r"""(?s)^\s*([^][&<>="]+?)\s*=\s*(.*?)\s*$""")
LUA_RE = re.compile(r"""(?s)^\s*([^<>="']+?)\s*=\s*(.*?)\s*$""")
# the two patterns must be the ones in the source
import inspect
from wikitextprocessor import core as _core
src_core = inspect.getsource(_core.Wtp.expand)
src_lua = inspect.getsource(luaexec.call_lua_sandbox)
if EXP_RE.pattern not in src_core.replace('r"""', '').replace('"""', ''):
    fail("c14:regex-contract#expander-pattern-text", "argument-name pattern in core.py differs from the contracted text",
         {"contracted": EXP_RE.pattern}, "drift")
if LUA_RE.pattern not in src_lua.replace('r"""', '').replace('"""', ''):
    fail("c14:regex-contract#make_frame-pattern-text", "argument-name pattern in luaexec.py differs from the contracted text",
         {"contracted": LUA_RE.pattern}, "drift")
ALPH = ["a", " ", "\n", "=", "<", "[", "'", "&", "b"]
L = 5 if tier == "quick" else 6
nchecked = 0
for n in range(0, L + 1):
    for tup in itertools.product(ALPH, repeat=n):
        s = "".join(tup)
        nchecked += 1
        for name, rx, bad in (("expander", EXP_RE, set('][&<>="')), ("make_frame", LUA_RE, set("<>=\"'"))):
            m = rx.match(s)
            # contract: matches iff '=' present, the text before the first '=' is non-blank-free... :
            has = "=" in s
            p = s.split("=", 1)[0] if has else ""
            ok = has and len(p) > 0 and not (set(p) & bad)
            if bool(m) != ok:
                fail(f"c14:regex-contract#{name}-matches-iff", f"{s!r}: match={bool(m)} contract={ok}", {"s": s}, "regex")
                continue
            if m:
                k, v = m.groups()
                rest = s.split("=", 1)[1]
                wk = p.strip() if p.strip() else p[-1]
                if k != wk or v != rest.strip():
                    fail(f"c14:regex-contract#{name}-groups", f"{s!r}: groups {(k, v)} contract {(wk, rest.strip())}", {"s": s}, "regex")
evaluations += nchecked

emit({"evaluations": evaluations, "distinct_nontrivial": len(distinct),
      "rule": "distinct argument lists with distinct names and non-blank values; plus all strings of length <= L over a "
              "9-character alphabet for the two regex contracts",
      "failures": list(failures.values()), "samples": samples,
      "bound": f"all argument lists of length <= {maxlen} over {len(ATOMS)} atoms, random lists to length 6; "
               f"frame.args read by a module inside the real sandbox for the {real_lua_state['n']} ASCII lists (stand-in for the absent "
               "ustring library); regex "
               f"contracts on {nchecked} strings (length <= {L}); Lua view via a stub lua_invoke on a bare LuaRuntime"})
