"""C15 bounded tier: nowiki contents over the wikitext token alphabet in five
embedding contexts; comments.  Stand-in, never counted as proved."""
import html
import itertools
import random
import sys

from bounded.harness import emit, new_ctx, payload, quiet_stdout
from bounded.harness import install_watchdog
install_watchdog()

P = payload()
tier = P.get("tier", "quick")
seed = int(P.get("seed", 0))
rng = random.Random(seed)

from wikitextprocessor import NodeKind, WikiNode  # noqa: E402
from wikitextprocessor.common import _nowiki_map  # noqa: E402

failures = {}
evaluations = 0
distinct = set()
samples = []


def fail(ident, what, witness, wclass="value"):
    if ident not in failures:
        failures[ident] = {"ident": ident, "witness_class": wclass, "what": what, "witness": witness}


TOK = ["{{a}}", "{{a|x}}", "{{{1}}}", "[[L]]", "[http://x y]", "{|", "|-", "|}", "* ", "# ", ": ", "==h==", "''", "'''",
       "<b>", "</b>", "<nowiki/>", "<nowiki />", "<!--", "-->", "__TOC__", "~~~~", "|", "=", "!", "{{#if:x|y}}", " ", "t",
       "\n", "<pre>", "{{", "}}", "[[", "]]", "<ref>", "{{PAGENAME}}", "_", "a_b", "&#95;", "&amp;", "&", ";", "#", "\"", "-{", "}-",
       "-{zh-hans:x}-", "~", "~~~", "a~b", "<nowiki>", "<nowiki>[[b]]", "\r\n", "\r", "a\r\nb"]
INV = {v: k for k, v in _nowiki_map.items()}


import re as _re
_ENT = _re.compile("|".join(_re.escape(e) for e in sorted(INV, key=len, reverse=True)))


def decode(s):
    """inverse of the quoting: ONE left-to-right pass (a second pass would also accept doubly quoted text)"""
    return _ENT.sub(lambda m: INV[m.group(0)], s)


ctx = new_ctx({"a": "A{{{1|}}}", "id": "{{{1}}}"})
hook_calls = []


def tf(name, ht):
    hook_calls.append((name, dict(ht)))
    return None


CONTEXTS = {
    "top": lambda n: ("X" + n + "Y", "X", "Y"),
    "nested-disabled": lambda n: ("{{<nowiki/>a|{{<nowiki/>b|X" + n + "Y}}}}", "X", "Y"),
    "disabled-link-in-template": lambda n: ("{{<nowiki/>a|[[<nowiki/>L|X" + n + "Y]]}}", "X", "Y"),
    "template-argument": lambda n: ("{{id|X" + n + "Y}}", "X", "Y"),
    "link-text": lambda n: ("[[T|X" + n + "Y]]", "[[T|X", "Y]]"),
    "list-item": lambda n: ("* X" + n + "Y", "* X", "Y"),
    "table-cell": lambda n: ("{|\n| X" + n + "Y\n|}", "{|\n| X", "Y\n|}"),
}


def texts_of(node, out):
    for c in node.children:
        if isinstance(c, str):
            out.append(c)
        else:
            for la in (c.largs or []):
                for x in la:
                    if isinstance(x, str):
                        out.append(x)
                    else:
                        texts_of(x, out)
            texts_of(c, out)
    return out


def kinds_of(node, out):
    for c in node.children:
        if isinstance(c, WikiNode):
            out.append(c.kind)
            kinds_of(c, out)
            for la in (c.largs or []):
                for x in la:
                    if isinstance(x, WikiNode):
                        out.append(x.kind)
                        kinds_of(x, out)
    return out


maxlen = 2 if tier == "quick" else 3
contents = [""] + ["".join(t) for n in range(1, maxlen + 1) for t in itertools.product(TOK, repeat=n)]
if tier == "quick":
    contents = contents[:1 + len(TOK)] + rng.sample(contents[1 + len(TOK):], 500)
contents += ["".join(rng.choice(TOK) for _ in range(rng.randint(3, 6))) for _ in range(100 if tier == "quick" else 3000)]
ctx_en = ctx
ctx_zh = new_ctx({"a": "A{{{1|}}}", "id": "{{{1}}}"}, lang_code="zh")     # LanguageConverter markup is stripped there
for ci, c in enumerate(contents):
    if "</nowiki" in c.lower():
        continue
    nw = "<nowiki>" + c + "</nowiki>"
    for cname, mk in list(CONTEXTS.items()) + [("zh:" + k, CONTEXTS[k]) for k in ("top", "template-argument", "link-text")
                                               if ("-{" in c or "}-" in c or ci % 7 == 0)]:
        ctx = ctx_zh if cname.startswith("zh:") else ctx_en
        text, pre, post = mk(nw)
        ctx.start_page("Tt")
        del hook_calls[:]
        evaluations += 1
        try:
            with quiet_stdout():
                out = ctx.expand(text, template_fn=tf)
        except Exception as ex:
            fail("c15:expand#no-exception", f"{type(ex).__name__}: {ex}", {"content": c, "context": cname}, type(ex).__name__)
            continue
        if any(0x10203D <= ord(ch) <= 0x10FFF0 for ch in out):
            fail("c15:expand#no-placeholder-character-in-the-output", f"content {c!r} in {cname}: {out!r}",
                 {"content": c, "context": cname})
        # the expansion contains the quoted body; decoding gives c back; nothing in c was expanded
        want_q = "<nowiki/>" if c == "" else None
        i = out.find("X")
        j = out.rfind("Y")
        body = out[i + 1:j] if i >= 0 and j > i else None
        if body is None or (want_q is None and decode(body) != c) or (want_q is not None and body not in ("<nowiki/>", "<nowiki />")):
            fail("c15:expand#nowiki-body-recoverable", f"content {c!r} in {cname}: expansion {out!r}",
                 {"content": c, "context": cname})
        elif want_q is None and any(ch in body for ch in _nowiki_map if ch not in "#&;" and ch != "_" and ch in body and
                                    ch not in "".join(_nowiki_map.values())):
            fail("c15:expand#markup-characters-replaced-by-entities", f"content {c!r}: body {body!r}",
                 {"content": c, "context": cname})
        inner_calls = [h for h in hook_calls if h[0] != "id"]
        if inner_calls:
            fail("c15:expand#nothing-inside-nowiki-is-expanded", f"content {c!r} in {cname}: hook saw {inner_calls}",
                 {"content": c, "context": cname})
        if cname == "top":
            # parse: in running text, at the very start of the page and at the start of a later line
            for (pre, post), pkw in itertools.product((("X", "Y"), ("", "Y"), ("a\n", "")),
                                                     ({}, {"expand_all": True}, {"pre_expand": True})):
                if pkw and ci % 5 and (pre, post) != ("X", "Y"):
                    continue
                ptext = pre + nw + post
                ctx.start_page("Tt")
                try:
                    with quiet_stdout():
                        root = ctx.parse(ptext, **pkw)
                except Exception as ex:
                    fail("c15:parse#no-exception", f"{type(ex).__name__}: {ex}", {"content": c, "text": ptext}, type(ex).__name__)
                    continue
                ks = kinds_of(root, [])
                txt = "".join(texts_of(root, []))
                if ks or (c != "" and decode(txt) != pre + c + post):
                    ident, wc = "c15:parse#single-text-node", "value"
                    # line starts inside the nowiki content (the first line only when nothing precedes it on its line)
                    lines = (pre + c).split("\n")
                    starts = lines[1:] + ([lines[0]] if pre == "" else [])
                    unprotected = any(ln[:1] in (" ", "\t", ";") or ln.startswith("----") for ln in starts)
                    if pkw and unprotected and set(ks) <= {NodeKind.PREFORMATTED, NodeKind.LIST, NodeKind.LIST_ITEM,
                                                           NodeKind.HLINE}:
                        # documented deviation: with an expansion switch the page is expanded to text before it is parsed,
                        # and the quoting does not cover a blank, ';' or '----' at the start of a line
                        ident, wc = ident + "[line-start-markup-under-expansion-switch]", "known-deviation:unquoted-line-start-markup"
                    fail(ident, f"{ptext!r} {pkw}: kinds {ks}, text {txt!r}",
                         {"content": c, "text": ptext, "options": pkw}, wc)
    distinct.add(c)
samples.append({"content": contents[len(contents) // 2]})

ctx = ctx_en
# parse: an argument / link text with a nested construct, then a line break, then a nowiki at the start of the line:
# the nowiki text stays a plain text child of that argument (no preformatted / list node, nothing torn out)
for ptext in ("{{id|[[x]]\n <nowiki>c d</nowiki>}}", "* {{id|{{a}}\n<nowiki>*c</nowiki> e}}", "[[T|{{a}} y\n <nowiki>z</nowiki>]]",
              "{{id|{{{1|}}}\n <nowiki>{{a}}</nowiki>|k=[[x]]\n <nowiki>w</nowiki>}}"):
    ctx.start_page("Tt")
    evaluations += 1
    try:
        with quiet_stdout():
            root = ctx.parse(ptext)
    except Exception as ex:
        fail("c15:parse#no-exception", f"{type(ex).__name__}: {ex}", {"text": ptext}, type(ex).__name__)
        continue
    ks = kinds_of(root, [])
    if NodeKind.PREFORMATTED in ks or len([k for k in ks if k in (NodeKind.TEMPLATE, NodeKind.LINK)]) < 1 or \
            not isinstance(root.children[-1], WikiNode):
        fail("c15:parse#nowiki-in-an-argument-after-a-nested-construct-stays-in-the-argument",
             f"{ptext!r}: kinds {ks}, last child {str(root.children[-1])[:40]!r}", {"text": ptext}, "torn-out")
# a template whose BODY contains a nowiki pair, transcluded on successive pages of one context (with other nowiki pairs
# on the page, so that cookie numbers differ from page to page)
ctx.add_page("Template:nwt", 10, "N<nowiki>{{a}} [[x]]</nowiki>M")
for pi, ptext in enumerate(["{{nwt}}", "<nowiki>q</nowiki>{{nwt}}", "<nowiki>r</nowiki><nowiki>s</nowiki>{{nwt}}{{nwt}}", "{{id|{{nwt}}}}",
                            "{{nwt}}"]):
    ctx.start_page(f"P{pi}")
    evaluations += 1
    try:
        with quiet_stdout():
            out = ctx.expand(ptext)
            root = ctx.parse(ptext, expand_all=True)
    except Exception as ex:
        fail("c15:expand#no-exception", f"{type(ex).__name__}: {ex}", {"content": "template body with nowiki", "text": ptext},
             type(ex).__name__)
        continue
    ptxt = "".join(texts_of(root, []))
    for what, got in (("expand", out), ("parse", ptxt)):
        if decode(got).count("N{{a}} [[x]]M") != ptext.count("{{nwt}}") or any(0x10203D <= ord(ch) <= 0x10FFF0 for ch in got):
            fail("c15:expand#nowiki-in-a-template-body-on-successive-pages",
                 f"page {pi} {ptext!r}: {what} gives {got!r}", {"text": ptext, "page_index": pi}, "stale-cookie")
# comments inside a template body: the transclusion equals that of the body with the comments deleted
for bi, body in enumerate(["a<!-- one line -->b", "a<!-- two\nlines -->b\nrest", "x<!--\n-->y<!-- c -->z", "t\n<!-- c -->\nu",
                           "<!-- lead\n -->body {{a|1}}", "A<!-- wrap docs in <noinclude> please -->B",
                           "A<!-- </noinclude> -->B<!-- <noinclude> -->C", "p<!-- <onlyinclude>x</onlyinclude> -->q",
                           "m<!-- <includeonly> -->n"]):
    import re as _re2
    ctx.add_page(f"Template:cm{bi}", 10, body)
    ctx.add_page(f"Template:cn{bi}", 10, _re2.sub(r"(?s)<!--.*?-->", "", body))
    ctx.start_page("Tt")
    evaluations += 1
    try:
        with quiet_stdout():
            a, b = ctx.expand("[{{cm%d}}]" % bi), ctx.expand("[{{cn%d}}]" % bi)
    except Exception as ex:
        fail("c15:comments#no-exception", f"{type(ex).__name__}: {ex}", {"template_body": body}, type(ex).__name__)
        continue
    if a != b:
        fail("c15:comments#equal-to-input-with-comments-deleted", f"template body {body!r}: {a!r} vs {b!r}", {"template_body": body})
# comments: the result equals that of the input with each comment (and the line break directly before it) deleted
CT = ["a", "\n", "<!--c-->", "<!-- {{a}} -->", "{{a|x}}", " ", "* i", "<!--\n-->", "==h==\n"]
clen = 3 if tier == "quick" else 4
import re
for n in range(1, clen + 1):
    for t in itertools.product(CT, repeat=n):
        s = "".join(t)
        stripped = re.sub(r"(?s)\n?<!--.*?-->", "", s)
        ctx.start_page("Tt")
        evaluations += 1
        try:
            with quiet_stdout():
                a, b = ctx.expand(s), ctx.expand(stripped)
        except Exception as ex:
            fail("c15:comments#no-exception", f"{type(ex).__name__}: {ex}", {"text": s}, type(ex).__name__)
            continue
        if a != b:
            fail("c15:comments#equal-to-input-with-comments-deleted", f"{s!r}: {a!r} vs {b!r}", {"text": s})
        distinct.add(("comment", s))

emit({"evaluations": evaluations, "distinct_nontrivial": len(distinct),
      "rule": "distinct nowiki contents (each in 5 embedding contexts) + distinct comment documents",
      "failures": list(failures.values()), "samples": samples,
      "bound": f"contents of <= {maxlen} tokens over {len(TOK)} wikitext tokens ({'sampled' if tier == 'quick' else 'all'}), random to "
               f"6 tokens, x 7 contexts (and 3 of them again on a zh wiki, where LanguageConverter markup is stripped); "
               f"all comment documents of <= {clen} tokens over {len(CT)} tokens"})
