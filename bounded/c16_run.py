"""C16 bounded tier: the balance / message-shape contracts monitored at run time
on the real functions while expanding generated pages, each page repeated
many times on one started page (no start_page in between)."""
import itertools
import random
import sys

from bounded.harness import Monitor, emit, find_ctx, new_ctx, payload, quiet_stdout
from bounded.harness import install_watchdog
install_watchdog()

P = payload()
tier = P.get("tier", "quick")
seed = int(P.get("seed", 0))
rng = random.Random(seed)
REPS = int(P.get("reps", 300 if tier == "quick" else 300))
NPAGES = int(P.get("pages", 40 if tier == "quick" else 400))

TEMPLATES = {
    "a": "A{{{1|}}}", "b": "{{a|{{{1}}}}}B", "loop": "x{{loop}}", "l1": "{{l2}}", "l2": "{{l1}}",
    "arg": "{{{x|{{a|d}}}}}", "pf": "{{#if:{{{1|}}}|y|n}}", "deep": "{{b|{{b|{{b|z}}}}}}",
    "bad": "{{#expr:1+}}", "sw": "{{#switch:{{{1}}}|a=1|b=2|#default=3}}",
}
ATOMS = ["text", "{{a}}", "{{a|x}}", "{{b|y}}", "{{loop}}", "{{l1}}", "{{arg}}", "{{arg|x=1}}",
         "{{pf|1}}", "{{pf}}", "{{deep}}", "{{bad}}", "{{sw|a}}", "{{#invoke:m|f}}", "{{#invoke:m}}",
         "{{#if:x|{{a}}|{{b}}}}", "{{lc:ABC}}", "{{nosuch}}", "{{{p}}}", "{{{p|{{a}}}}}",
         "[[link|{{a}}]]", "[http://x {{a}}]", "<nowiki>{{a}}</nowiki>", "{{#expr:1/0}}",
         "{{padleft:x|5}}", "{{#switch:x|x={{a}}}}", "{{a|{{b|{{a|q}}}}}}", "{{#time:Y|now}}",
         "{{#titleparts:a/b/c|1}}", "{{unknownfn:}}", "{{#unknown:z}}", "{{PAGENAME}}", "{{a\n|x\n}}",
         # argument names that are computed: empty, blank, numeric, a call
         "{{:Pg}}", "{{:Pg|x}} {{a}}", "{{b|{{:Pg}}}}", "{{:Nosuchpage}}",      # transclusion of a main-namespace page
         "{{a|{{{nope|}}}=v}}", "{{b|{{{nope| }}}=v|w}}", "{{a|{{lc:K}}=v}}", "{{a|{{a}}=v|{{{q|1}}}=z}}", "{{a|=v}}"]


def pages():
    out = list(ATOMS)
    while len(out) < max(NPAGES, len(ATOMS) + 8):
        k = rng.randint(2, 4)
        out.append(" ".join(rng.choice(ATOMS) for _ in range(k)))
    return out


SEL = [("core.py", "Wtp.expand"),
       ("core.py", "Wtp.expand.<locals>.expand_recurse"),
       ("core.py", "Wtp.expand.<locals>.expand_recurse.<locals>.expand_args"),
       ("core.py", "Wtp.expand.<locals>.expand_recurse.<locals>.expand_parserfn"),
       ("core.py", "Wtp.expand.<locals>.expand_recurse.<locals>.expand_parserfn.<locals>.expander"),
       ("core.py", "Wtp.expand.<locals>.invoke_fn"),
       ("luaexec.py", "call_lua_sandbox"),
       ("parserfns.py", "call_parser_function")]

failures = {}
shadow = []
evaluations = 0
current = {"page": None, "opts": None}


def fail(ident, what, witness_class=""):
    if ident not in failures:
        failures[ident] = {"ident": ident, "what": what, "page": current["page"], "options": current["opts"],
                           "witness_class": witness_class}


def on_enter(code, frame):
    ctx = find_ctx(frame)
    shadow.append((code.co_qualname, tuple(ctx.expand_stack) if ctx is not None else None))


def on_exit(code, frame, retval):
    global evaluations
    q, before = shadow.pop()
    ctx = find_ctx(frame)
    evaluations += 1
    if ctx is not None and before is not None and tuple(ctx.expand_stack) != before:
        fail(f"{q}#post@return#expand_stack == old(expand_stack)",
             f"{q}: path {before} -> {tuple(ctx.expand_stack)}", "unbalanced-return")


def on_unwind(code, frame, exc):
    q, before = shadow.pop()
    ctx = find_ctx(frame)
    if ctx is not None and before is not None and tuple(ctx.expand_stack)[:len(before)] != before:
        fail(f"{q}#post@raise#prefix(old(expand_stack), expand_stack)",
             f"{q}: path {before} -> {tuple(ctx.expand_stack)} on {type(exc).__name__}", "popped-below-entry")


KEYS = {"msg", "trace", "title", "section", "subsection", "called_from", "path"}
OPTS = list(itertools.product([True, False], repeat=4))  # parserfns, invoke, pre_expand, hooks
seen_cases = set()
samples = []

ctx = new_ctx(TEMPLATES, parser_function_aliases={"#invoque": "#invoke", "#si": "#if", "minus": "lc"})
for c_ in (ctx,):
    c_.add_page("Pg", 0, "P{{a|{{{1|}}}}}<noinclude>doc</noinclude>")
    c_.db_conn.commit()
ATOMS += ["{{#invoque:m|f}}", "{{#invoque:m}}", "{{#si:x|{{a}}|n}}", "{{minus:ABC}}"]
# a context with template override functions, and pages whose hooks raise inside lazily expanded arguments
ctx_ov = new_ctx(TEMPLATES, template_override_funcs={"a": lambda args: "OV" + str(len(args)), "ov": lambda args: "{{b|o}}"})
OV_PAGES = ["{{a}}", "{{a|x}}", "{{ov}}", "{{b|{{a|y}}}}", "{{#if:1|{{a}}|n}}", "{{deep}} {{ov|{{a}}}}", "<nowiki>{{a}}</nowiki>",
            "{{a|{{ov}}}} {{nosuch|{{a}}}}"]
BOOM_PAGES = ["{{boom}}", "{{#if:1|{{boom}}}}", "{{#switch:x|x={{boom}}|y}}", "{{pf|{{boom}}}}", "{{b|{{#if:1|{{a|{{boom}}}}}}}}",
              "{{#ifeq:a|a|{{arg|x={{boom}}}}}}", "{{lc:{{boom}}}}", "{{a}} {{#iferror:{{boom}}|e|n}}", "{{#if:1|{{#invoke:m|f}}}}"]


def boom_fn(name, args):
    if name == "boom":
        raise KeyError("boom")
    return None


def boom_post(name, args, text):
    if name == "a" and "Q" in text:
        raise ValueError("post boom")
    return None


mon = Monitor(SEL, on_enter, on_exit, on_unwind)
mon.start()
try:
    plan = [(ctx, pi, page, "plain") for pi, page in enumerate(pages())]
    plan += [(ctx_ov, 100 + pi, page, "override") for pi, page in enumerate(OV_PAGES)]
    plan += [(ctx, 200 + pi, page, "boom") for pi, page in enumerate(BOOM_PAGES + ["{{#if:1|{{a|Q}}}}"])]
    for ctx, pi, page, mode in plan:
        opts = OPTS[pi % len(OPTS)] if (tier == "quick" and "#invo" not in page and mode == "plain") else None
        optlist = [opts] if opts else OPTS
        if mode != "plain":
            optlist = [o for o in OPTS if o[0] and (o[3] or mode == "override")]
        for o in optlist:
            pf, inv, pre, hooks = o
            current["page"], current["opts"] = page, dict(expand_parserfns=pf, expand_invoke=inv,
                                                          pre_expand=pre, hooks=hooks, mode=mode)
            ctx.start_page("Tt")
            base = tuple(ctx.expand_stack)
            if base != ("Tt",):
                fail("Wtp.start_page#post#expand_stack == [title]", f"path after start_page: {base}")
            kw = dict(expand_parserfns=pf, expand_invoke=inv, pre_expand=pre)
            if hooks:
                kw["template_fn"] = lambda n, a: None
                kw["post_template_fn"] = lambda n, a, t: None
            if mode == "boom":
                kw["template_fn"] = boom_fn
                kw["post_template_fn"] = boom_post
            reps = REPS if tier != "quick" or pi < 12 else (120 if mode != "plain" else 30)
            depth_errs = 0
            for r in range(reps):
                del shadow[:]
                try:
                    with quiet_stdout():
                        ctx.expand(page, **kw)
                except Exception as ex:  # C05's business; C16 only cares about the path
                    if tuple(ctx.expand_stack)[:1] != base:
                        fail("Wtp.expand#post@raise#prefix", f"{type(ex).__name__}: path {tuple(ctx.expand_stack)}")
                    # exceptional exit may leave an extended path: restart page
                    ctx.start_page("Tt")
                    continue
                if tuple(ctx.expand_stack) != base:
                    fail("Wtp.expand#post@return#expand_stack == old(expand_stack)",
                         f"after {r + 1} expansions path is {tuple(ctx.expand_stack)[:6]}...", "unbalanced-return")
                    ctx.start_page("Tt")
                    break
            # message record shape
            ret = ctx.to_return()
            if set(ret) != {"errors", "warnings", "debugs", "notes", "wiki_notices"}:
                fail("Wtp.to_return#post#keys", f"keys {sorted(ret)}")
            for lst in ret.values():
                for rec in lst:
                    if set(rec) != KEYS:
                        fail("recorder#post#keys", f"record keys {sorted(rec)}")
                    elif rec["title"] != "Tt" or not isinstance(rec["path"], tuple) or rec["path"][:1] != ("Tt",):
                        fail("recorder#post#title/path", f"record {rec}")
                    elif "too deep recursion" in rec["msg"] and "loop" not in page and "{{ov" not in page and "l1" not in page \
                            and "deep" not in page and len(rec["path"]) >= 100 and \
                            len(set(rec["path"])) < 20 and page.count("{{") < 50:
                        # N flat calls must never be reported as too deeply nested
                        fail("expand_recurse#depth-is-nesting-only",
                             f"depth error with path length {len(rec['path'])} on flat page", "flat-depth")
            key = (page, o)
            if key not in seen_cases:
                seen_cases.add(key)
                if len(samples) < 5:
                    samples.append({"page": page, "options": current["opts"], "repetitions": reps,
                                    "messages": {k: len(v) for k, v in ret.items()}})
    # every recorder appends one well-formed record to its own list only; start_page empties all five
    ctx = plan[0][0]
    ctx.start_page("Pa")
    ctx.start_section("S1")
    names = {"error": "errors", "warning": "warnings", "debug": "debugs", "note": "notes",
             "wiki_notice": "wiki_notices"}
    for fn, lst in names.items():
        before = {k: len(v) for k, v in ctx.to_return().items()}
        with quiet_stdout():
            getattr(ctx, fn)("msg-" + fn, sortid="verif/1")
        after = ctx.to_return()
        for k, v in after.items():
            exp = before[k] + (1 if k == lst else 0)
            if len(v) != exp:
                fail(f"Wtp.{fn}#post#appends-one-record-to-{lst}-only", f"{k}: {before[k]} -> {len(v)}")
        rec = after[lst][-1] if after[lst] else {}
        if set(rec) != KEYS or rec.get("title") != "Pa" or rec.get("section") != "S1" or \
                rec.get("path") != tuple(ctx.expand_stack) or rec.get("msg") != "msg-" + fn:
            fail(f"Wtp.{fn}#post#record-shape", f"record {rec}")
    ctx.start_page("Pb")
    left = {k: len(v) for k, v in ctx.to_return().items() if v}
    if left or ctx.section is not None or ctx.subsection is not None or tuple(ctx.expand_stack) != ("Pb",):
        fail("Wtp.start_page#post#lists-emptied-and-path-reset", f"after start_page: {left}, path {ctx.expand_stack}",
             "stale-messages")
    # start_section clears the subsection, also when the section title is the current one / None
    for sec in ("S2", "S2", None, None):
        ctx.start_subsection("Sub")
        ctx.start_section(sec)
        with quiet_stdout():
            ctx.debug("after start_section", sortid="verif/3")
        rec = ctx.to_return()["debugs"][-1]
        if ctx.subsection is not None or rec.get("subsection") not in (None, "") or rec.get("section") != (sec or "") and rec.get("section") != sec:
            fail("Wtp.start_section#post#subsection-cleared", f"start_section({sec!r}) after start_subsection('Sub'): record {rec}",
                 "stale-subsection")
    ctx.start_section("S2")
    ctx.start_subsection("Sub2")
    ctx.start_page("Pc")
    with quiet_stdout():
        ctx.warning("first message on the new page", sortid="verif/2")
    recs = ctx.to_return()["warnings"]
    rec = recs[-1] if recs else {}
    if len(recs) != 1 or rec.get("title") != "Pc" or rec.get("section") not in (None, "") or rec.get("subsection") not in (None, ""):
        fail("Wtp.warning#post#record-shape", f"first record after start_page: {rec}", "stale-section")
    evaluations += 7
finally:
    mon.stop()

emit({"evaluations": evaluations, "monitored_calls": mon.calls,
      "distinct_nontrivial": len({k for k in seen_cases if "{{" in k[0]}),
      "rule": "distinct (page, option tuple) pairs containing at least one call; each expanded `reps` times on "
              "one started page with sys.monitoring PY_START/PY_RETURN/PY_UNWIND contracts on 8 functions",
      "failures": list(failures.values()), "samples": samples,
      "bound": f"{len(seen_cases)} page/option cases x up to {REPS} repetitions (incl. a context with template_override_funcs "
               f"and template_fn/post_template_fn hooks that raise inside lazily expanded arguments); #invoke only via early-return "
               "and too-few-arguments paths (Lua sandbox cannot start offline)"})
