"""C17 bounded tier: the real analyze_templates on a real SQLite store for all
inclusion graphs on <=3 templates x all flag sets (x redirect placements),
sampled graphs on 4..8 templates, against the least fixpoint computed here;
termination watchdog.  Stand-in, never counted as proved."""
import itertools
import random
import signal
import sys

from bounded.harness import emit, payload, quiet_stdout

P = payload()
tier = P.get("tier", "quick")
seed = int(P.get("seed", 0))
rng = random.Random(seed)

from wikitextprocessor import Wtp  # noqa: E402

failures = {}
evaluations = 0
distinct = set()
samples = []


class Timeout(Exception):
    pass


def _alarm(*a):
    raise Timeout()


signal.signal(signal.SIGALRM, _alarm)


def fail(ident, what, witness, wclass="value"):
    if ident not in failures:
        failures[ident] = {"ident": ident, "witness_class": wclass, "what": what, "witness": witness}


NAMES = ["A", "R:x", "x", "b c", "Ünï", "lower", "D/sub", "U:b c"]


def finish():
    samples.append({"templates": NAMES[:3], "edges": [[0, 1], [1, 2], [2, 0]], "flags": [0], "note": "3-cycle"})
    emit({"evaluations": evaluations, "distinct_nontrivial": len({d for d in distinct if len(d) < 4 or d[1] or d[3]}),
          "rule": "distinct (template count, inclusion edge set, flag set, redirect placement, probe-before-add set) cases with "
                  "at least one edge or redirect",
          "failures": list(failures.values()), "samples": samples,
          "bound": f"all inclusion graphs incl. self-inclusion on <= {nmax} templates x all flag sets; sampled graphs on 3..8 "
                   "templates with redirects (to/from a marked template, chains of redirects) and lookups made before the page exists; 10 s watchdog"})
    sys.exit(0)


def closure(n, edges, flags, redirects):
    """least set containing flags, closed under includers; then one hop of redirects both ways"""
    m = set(flags)
    changed = True
    while changed:
        changed = False
        for (a, b) in edges:       # b includes a
            if a in m and b not in m:
                m.add(b)
                changed = True
    m2 = set(m)
    for (src, dst) in redirects:
        if dst in m:
            m2.add(src)
    m3 = set(m2)
    for (src, dst) in redirects:
        if src in m2:
            m3.add(dst)
    return m, m3


def run_case(n, edges, flags, redirects, pre_probe=(), names_override=None):
    """templates 0..n-1 (+ redirect pages n..); edges (a,b): body of b contains {{name_a}}"""
    global evaluations
    evaluations += 1
    with quiet_stdout():
        ctx = Wtp(quiet=True)
    try:
        names = list(names_override) if names_override else NAMES[:n]
        rnames = [f"R{i}" for i in range(len(redirects))]
        for t in pre_probe:                      # add-if-missing idiom before the page exists
            ctx.page_exists("Template:" + names[t], 10)
        for i, nm in enumerate(names):
            body = " ".join("{{%s}}" % names[a] for (a, b) in edges if b == i) + (" ==h==" if i in flags else " x")
            ctx.add_page("Template:" + nm, 10, body)
        red = []
        for ri, (kind, t) in enumerate(redirects):
            # kind 'to': redirect page R -> template t ; kind 'from': template-like page R flagged, redirecting to t
            # t: a template index, or "R<j>" naming an earlier redirect page (a redirect chain)
            ctx.add_page("Template:" + rnames[ri], 10, None,
                         redirect_to="Template:" + (names[t] if isinstance(t, int) else t))
            red.append((kind, "R%d" % ri, t))
        ctx.db_conn.commit()

        def classify(c, page):
            used = set()
            body = page.body or ""
            for nm in names:
                if "{{%s}}" % nm in body:
                    used.add(nm)
            flagged = "==h==" in body
            if page.redirect_to is not None:
                for kind, rn, t in red:
                    if page.title == "Template:" + rn and kind == "from":
                        flagged = True
            return used, flagged

        signal.alarm(10)
        try:
            with quiet_stdout():
                ctx.analyze_templates(classify)
        except Timeout:
            fail("core:Wtp.analyze_templates#terminates", "no result within 10 s",
                 {"n": n, "edges": edges, "flags": sorted(flags), "redirects": redirects}, "timeout")
            finish()        # a non-terminating analysis: report at once instead of waiting 10 s per remaining case
        finally:
            signal.alarm(0)
        got = {p.title for p in ctx.get_all_pages([10]) if p.need_pre_expand}
        # expected
        idx = {nm: i for i, nm in enumerate(names)}
        fl = set(flags)
        redirect_pairs = []
        nodes_extra = {}
        for kind, rn, t in red:
            rid = "r:" + rn
            redirect_pairs.append((rid, t if isinstance(t, int) else "r:" + t))
            if kind == "from":
                fl.add(rid)
        m, m3 = closure(n, edges, fl, redirect_pairs)
        want = set()
        for x in m3:
            want.add("Template:" + (names[x] if isinstance(x, int) else x[2:]))
        if got != want:
            fail("core:Wtp.analyze_templates#marks-exactly-the-least-closed-set",
                 f"marked {sorted(got)} want {sorted(want)}",
                 {"templates": names, "edges(a included by b)": edges, "flags": sorted(flags), "redirects": red,
                  "pre_probe": list(pre_probe)},
                 "missing" if want - got else "extra")
        # fresh lookups agree with the table under every spelling used during analysis
        for nm in names:
            for sp in ("Template:" + nm, nm):
                pg = ctx.get_page(sp, 10)
                if pg is not None and pg.need_pre_expand != (pg.title in got):
                    fail("core:Wtp.analyze_templates#lookups-after-analysis-are-fresh",
                         f"get_page({sp!r}).need_pre_expand={pg.need_pre_expand} but table says {pg.title in got}",
                         {"templates": names, "edges": edges, "flags": sorted(flags)}, "stale")
        distinct.add((n, tuple(edges), tuple(sorted(flags)), tuple(redirects), tuple(pre_probe)))
    finally:
        try:
            ctx.close_db_conn()
        except Exception:
            pass


# exhaustive: n <= 2 (quick) / 3 (thorough), all edge sets incl. self loops, all flag sets
nmax = 2 if tier == "quick" else 3
for n in range(1, nmax + 1):
    pairs = [(a, b) for a in range(n) for b in range(n)]
    for k in range(len(pairs) + 1):
        for edges in itertools.combinations(pairs, k):
            for fk in range(n + 1):
                for flags in itertools.combinations(range(n), fk):
                    run_case(n, list(edges), set(flags), [])
# n == 3 sampled in quick mode, plus redirect placements and the probe-before-add idiom
for _ in range(150 if tier == "quick" else 1500):
    n = 3
    pairs = [(a, b) for a in range(n) for b in range(n)]
    edges = [p for p in pairs if rng.random() < 0.35]
    flags = {i for i in range(n) if rng.random() < 0.4}
    reds = [(rng.choice(["to", "from"]), rng.randrange(n)) for _ in range(rng.randint(0, 2))]
    probe = [i for i in range(n) if rng.random() < 0.3]
    run_case(n, edges, flags, reds, probe)
# pages that reach the store through a JSON override file (entries may omit need_pre_expand / model)
def run_override_case(omit_keys):
    global evaluations
    import json as _json
    import tempfile as _tf
    from pathlib import Path as _P
    from wikitextprocessor.dumpparser import overwrite_pages
    evaluations += 1
    with quiet_stdout():
        ctx = Wtp(quiet=True)
    tmpd = _tf.mkdtemp(prefix="verif_c17_")
    try:
        ctx.add_page("Template:A", 10, "x ==h==")
        ctx.add_page("Template:B", 10, "{{A}} x")
        ctx.add_page("Template:Plain", 10, "p")
        ctx.add_page("Template:MA", 10, None, redirect_to="Template:TJ", need_pre_expand=True)
        entries = {"Template:RJ": {"namespace_id": 10, "redirect_to": "Template:A"},
                   "Template:RK": {"namespace_id": 10, "redirect_to": "Template:Plain"},
                   "Template:OJ": {"namespace_id": 10, "body": "{{B}} y"},
                   "Template:TJ": {"namespace_id": 10, "body": "t"}}
        if not omit_keys:
            for e in entries.values():
                e["need_pre_expand"] = False
                e["model"] = "wikitext"
        f = _P(tmpd) / "override.json"
        f.write_text(_json.dumps(entries), encoding="utf-8")
        with quiet_stdout():
            overwrite_pages(ctx, [f], True)
        ctx.db_conn.commit()

        def classify(c, page):
            b = page.body or ""
            return {nm for nm in ("A", "B", "Plain", "OJ", "TJ") if "{{%s}}" % nm in b}, "==h==" in b
        signal.alarm(10)
        try:
            with quiet_stdout():
                ctx.analyze_templates(classify)
        except Timeout:
            fail("core:Wtp.analyze_templates#terminates", "no result within 10 s (override case)", {"omit_keys": omit_keys}, "timeout")
            finish()
        finally:
            signal.alarm(0)
        got = {p.title for p in ctx.get_all_pages([10]) if p.need_pre_expand}
        want = {"Template:" + n for n in ("A", "B", "OJ", "RJ", "MA", "TJ")}
        if got != want:
            fail("core:Wtp.analyze_templates#marks-exactly-the-least-closed-set[json-override]",
                 f"pages written through a JSON override file ({'keys omitted' if omit_keys else 'all keys given'}): "
                 f"marked {sorted(got)} want {sorted(want)}", {"omit_keys": omit_keys}, "missing" if want - got else "extra")
        distinct.add(("override", omit_keys))
    finally:
        import shutil as _sh
        _sh.rmtree(tmpd, ignore_errors=True)
        try:
            ctx.close_db_conn()
        except Exception:
            pass


def run_overwrite_case():
    """analyse, overwrite a marked template with an unflagged body (need_pre_expand=False), analyse again: the stored
    flag of the overwritten page is the one given to add_page, earlier marks of OTHER pages are kept"""
    global evaluations
    evaluations += 1
    with quiet_stdout():
        ctx = Wtp(quiet=True)
    try:
        def classify(c, page):
            b = page.body or ""
            return {nm for nm in ("A", "B", "C") if "{{%s}}" % nm in b}, "==h==" in b
        ctx.add_page("Template:A", 10, "x ==h==")
        ctx.add_page("Template:B", 10, "{{A}} y")
        ctx.add_page("Template:C", 10, "plain")
        with quiet_stdout():
            ctx.analyze_templates(classify)
        first = {p.title for p in ctx.get_all_pages([10]) if p.need_pre_expand}
        ctx.add_page("Template:A", 10, "now plain", need_pre_expand=False)
        ctx.add_page("Template:C", 10, "{{A}} z", need_pre_expand=False)
        signal.alarm(10)
        try:
            with quiet_stdout():
                ctx.analyze_templates(classify)
        except Timeout:
            fail("core:Wtp.analyze_templates#terminates", "re-analysis after overwrite did not return in 10 s", {}, "timeout")
            finish()
        finally:
            signal.alarm(0)
        got = {p.title for p in ctx.get_all_pages([10]) if p.need_pre_expand}
        want = {"Template:B"}          # B keeps its earlier mark; A was overwritten unmarked and unflagged; C includes only A
        if first != {"Template:A", "Template:B"} or got != want:
            fail("core:Wtp.analyze_templates#marks-exactly-the-least-closed-set[overwrite-then-re-analysis]",
                 f"first analysis marked {sorted(first)}; after overwriting A and C and analysing again: marked {sorted(got)} "
                 f"want {sorted(want)}", {"history": "A flagged, B includes A; analyse; A := plain, C := includes A; analyse"},
                 "missing" if want - got else "extra")
        distinct.add(("overwrite", 0))
    finally:
        try:
            ctx.close_db_conn()
        except Exception:
            pass


def run_late_redirect_case(variant):
    """redirects that appear between two analyses, or that exist while the classifier flags nothing new"""
    global evaluations
    evaluations += 1
    with quiet_stdout():
        ctx = Wtp(quiet=True)
    try:
        def classify(c, page):
            b = page.body or ""
            return {nm for nm in ("A", "B") if "{{%s}}" % nm in b}, "==h==" in b
        want = set()
        if variant == "redirect-added-after-first-analysis":
            ctx.add_page("Template:A", 10, "x ==h==")
            ctx.add_page("Template:B", 10, "{{A}}")
            with quiet_stdout():
                ctx.analyze_templates(classify)
            ctx.add_page("Template:R", 10, None, redirect_to="Template:A")
            want = {"Template:A", "Template:B", "Template:R"}
        elif variant == "premarked-template-nothing-flagged":
            ctx.add_page("Template:A", 10, "plain", need_pre_expand=True)
            ctx.add_page("Template:R", 10, None, redirect_to="Template:A")
            want = {"Template:A", "Template:R"}
        else:       # premarked redirect added after the first analysis
            ctx.add_page("Template:A", 10, "plain")
            with quiet_stdout():
                ctx.analyze_templates(classify)
            ctx.add_page("Template:R", 10, None, redirect_to="Template:A", need_pre_expand=True)
            want = {"Template:A", "Template:R"}
        signal.alarm(10)
        try:
            with quiet_stdout():
                ctx.analyze_templates(classify)
        except Timeout:
            fail("core:Wtp.analyze_templates#terminates", "no result within 10 s (late redirect case)", {"variant": variant}, "timeout")
            finish()
        finally:
            signal.alarm(0)
        got = {p.title for p in ctx.get_all_pages([10]) if p.need_pre_expand}
        if got != want:
            fail("core:Wtp.analyze_templates#marks-exactly-the-least-closed-set[redirects-without-new-marks]",
                 f"{variant}: marked {sorted(got)} want {sorted(want)}", {"variant": variant}, "missing" if want - got else "extra")
        distinct.add(("late-redirect", variant))
    finally:
        try:
            ctx.close_db_conn()
        except Exception:
            pass


for v_ in ("redirect-added-after-first-analysis", "premarked-template-nothing-flagged", "premarked-redirect-after-first-analysis"):
    run_late_redirect_case(v_)
def run_pipeline_case():
    """analyze_and_overwrite_pages on a database that already holds marked pages, with an override file that adds a
    flagged template and an includer of it: both end up marked"""
    global evaluations
    import json as _json
    import tempfile as _tf
    from pathlib import Path as _P
    from wikitextprocessor.dumpparser import analyze_and_overwrite_pages
    evaluations += 1
    with quiet_stdout():
        ctx = Wtp(quiet=True)
    tmpd = _tf.mkdtemp(prefix="verif_c17p_")
    try:
        def classify(c, page):
            b = page.body or ""
            return {nm for nm in ("A", "N", "W") if "{{%s}}" % nm in b}, "==h==" in b
        ctx.add_page("Template:A", 10, "x ==h==")
        ctx.add_page("Template:P", 10, "plain")
        with quiet_stdout():
            ctx.analyze_templates(classify)
        f = _P(tmpd) / "o.json"
        f.write_text(_json.dumps({"Template:N": {"namespace_id": 10, "body": "new ==h==", "need_pre_expand": False, "model": "wikitext"},
                                  "Template:W": {"namespace_id": 10, "body": "{{N}} w", "need_pre_expand": False, "model": "wikitext"}}),
                     encoding="utf-8")
        signal.alarm(20)
        try:
            with quiet_stdout():
                analyze_and_overwrite_pages(ctx, [f], False, classify)
        except Timeout:
            fail("core:Wtp.analyze_templates#terminates", "pipeline case did not return", {}, "timeout")
            finish()
        finally:
            signal.alarm(0)
        got = {p.title for p in ctx.get_all_pages([10]) if p.need_pre_expand}
        want = {"Template:A", "Template:N", "Template:W"}
        if got != want:
            fail("core:Wtp.analyze_templates#marks-exactly-the-least-closed-set[dump-pipeline-with-overrides]",
                 f"analysed database + override file with a flagged template and its includer: marked {sorted(got)} want {sorted(want)}",
                 {"history": "analyse; analyze_and_overwrite_pages(overrides containing templates)"}, "missing" if want - got else "extra")
        distinct.add(("pipeline", 0))
    finally:
        import shutil as _sh
        _sh.rmtree(tmpd, ignore_errors=True)
        try:
            ctx.close_db_conn()
        except Exception:
            pass


def run_defaults_case():
    """the dump pipeline's built-in helper templates (add_default_templates) are only added where the wiki has none:
    pages already stored -- here a flagged template, a redirect from a helper title to it and an includer -- keep
    their rows and their marks, on the first and on a repeated run"""
    global evaluations
    from wikitextprocessor.dumpparser import add_default_templates
    evaluations += 1
    with quiet_stdout():
        ctx = Wtp(quiet=True)
    try:
        def classify(c, page):
            b = page.body or ""
            return {nm for nm in ("open", "((", "!") if "{{%s}}" % nm in b}, "==h==" in b
        ctx.add_page("Template:open", 10, "x ==h==")
        ctx.add_page("Template:((", 10, redirect_to="Template:open")
        ctx.add_page("Template:!", 10, "bar ==h==")
        ctx.add_page("Template:U", 10, "{{((}} u")
        ctx.add_page("Template:V", 10, "{{!}} v")

        def rows():
            return {p.title: (p.namespace_id, p.body, p.redirect_to, bool(p.need_pre_expand)) for p in ctx.get_all_pages([10])}
        for step in ("first run", "repeated run"):
            with quiet_stdout():
                add_default_templates(ctx)
                if step == "first run":
                    ctx.analyze_templates(classify)
                    ref = rows()
            now = rows()
            if step == "first run":
                # (the statement adds redirects after the closure: the includer U of the redirect page is not marked)
                want = {"Template:open", "Template:((", "Template:!", "Template:V"}
                got = {t for t, r in now.items() if r[3]}
                if got != want or now["Template:(("][2] != "Template:open":
                    fail("core:Wtp.analyze_templates#marks-exactly-the-least-closed-set[built-in-helper-templates]",
                         f"wiki-defined helper templates (a flagged 'Template:!', a redirect 'Template:((' to a flagged one): marked "
                         f"{sorted(got)} want {sorted(want)}; Template:(( redirects to {now['Template:(('][2]!r}",
                         {"history": "add pages; add_default_templates; analyze_templates"}, "missing" if want - got else "extra")
            elif now != ref:
                diff = {t: (ref.get(t), now.get(t)) for t in set(ref) | set(now) if ref.get(t) != now.get(t)}
                fail("core:Wtp.analyze_templates#marks-exactly-the-least-closed-set[built-in-helper-templates]",
                     f"a repeated add_default_templates changed stored template rows / marks: {diff}",
                     {"history": "add pages; add_default_templates; analyze_templates; add_default_templates"}, "rows-changed")
        distinct.add(("defaults", 0))
    finally:
        try:
            ctx.close_db_conn()
        except Exception:
            pass


run_defaults_case()
run_pipeline_case()
run_overwrite_case()
run_override_case(False)
run_override_case(True)
# names whose stored form is not NFC (decomposed accent, Angstrom sign): looked up exactly as stored
for pair in (("e\u0301x", "zz"), ("\u212bng", "zz"), ("ko\u0308ln", "zz")):
    run_case(3, [(0, 1)], {0}, [], names_override=["A", pair[0], pair[1]])
    run_case(3, [(0, 1), (1, 2)], {0}, [("to", 1)], names_override=["A", pair[0], pair[1]])
# redirect targets written with underscores, exactly as the destination's title was given to add_page (the two redirect
# rules compare the stored strings).  Inclusion edges are left out here on purpose: a title stored with an underscore
# cannot be looked up at all (lookups normalise underscores to blanks, add_page stores verbatim -- recorded under C10)
for nm in (["A_b", "c_d"], ["new_box", "sh"], ["_x", "y_"]):
    for reds in ([("to", 0)], [("from", 0)], [("to", 1)], [("to", 0), ("from", 1)], [("to", 0), ("to", "R0")]):
        for fl in ({0}, {1}, set()):
            run_case(2, [], fl, reds, names_override=nm)
# case siblings whose upper-case form has the HIGHER code point (the includer is the lower-case one)
for pair in (("ÿx", "Ÿx"), ("µ-box", "Μ-box"), ("lower", "Lower")):
    for inc in (1, 2):
        run_case(3, [(0, inc)], {0}, [], names_override=["A", pair[0], pair[1]])
        run_case(3, [(0, inc), (inc, 3 - inc)], {0}, [], names_override=["A", pair[0], pair[1]])
# redirect chains: a redirect whose destination is itself a (flagged or unflagged) redirect page
for n in (1, 2):
    for k1 in ("to", "from"):
        for k2 in ("to", "from"):
            for k3 in (None, "to", "from"):
                for fl in (set(), {0}):
                    reds = [(k1, 0), (k2, "R0")] + ([(k3, "R1")] if k3 else [])
                    run_case(n, [(0, 1)] if n == 2 else [], fl, reds)
for _ in range(60 if tier == "quick" else 2000):
    n = rng.randint(4, 8)
    pairs = [(a, b) for a in range(n) for b in range(n)]
    edges = [p for p in pairs if rng.random() < 0.2]
    flags = {i for i in range(n) if rng.random() < 0.25}
    reds = []
    for ri in range(rng.randint(0, 3)):
        reds.append((rng.choice(["to", "from"]), ("R%d" % rng.randrange(ri)) if ri and rng.random() < 0.4 else rng.randrange(n)))
    probe = [i for i in range(n) if rng.random() < 0.2]
    run_case(n, edges, flags, reds, probe)
# re-analysis histories: analyse, add more templates (some including already marked ones), analyse again
def run_reanalysis(n1, n2, edges, flags, premarked):
    global evaluations
    evaluations += 1
    with quiet_stdout():
        ctx = Wtp(quiet=True)
    try:
        names = NAMES[:n2]

        def body(i):
            return " ".join("{{%s}}" % names[a] for (a, b) in edges if b == i) + (" ==h==" if i in flags else " x")

        def classify(c, page):
            b = page.body or ""
            return {nm for nm in names if "{{%s}}" % nm in b}, "==h==" in b
        for i in range(n1):
            ctx.add_page("Template:" + names[i], 10, body(i), need_pre_expand=i in premarked)
        with quiet_stdout():
            ctx.analyze_templates(classify)
        for i in range(n1, n2):
            ctx.add_page("Template:" + names[i], 10, body(i))
        signal.alarm(10)
        try:
            with quiet_stdout():
                ctx.analyze_templates(classify)
        except Timeout:
            fail("core:Wtp.analyze_templates#terminates", "re-analysis did not return in 10 s", {"edges": edges}, "timeout")
            finish()
        finally:
            signal.alarm(0)
        got = {p.title for p in ctx.get_all_pages([10]) if p.need_pre_expand}
        m, _ = closure(n2, edges, set(flags) | set(premarked), [])
        want = {"Template:" + names[x] for x in m}
        if got != want:
            fail("core:Wtp.analyze_templates#marks-exactly-the-least-closed-set[re-analysis]",
                 f"after analysing, adding {names[n1:n2]} and analysing again: marked {sorted(got)} want {sorted(want)}",
                 {"templates": names, "first_batch": n1, "edges(a included by b)": edges, "flags": sorted(flags),
                  "added_with_need_pre_expand": sorted(premarked)}, "missing" if want - got else "extra")
        distinct.add(("re", n1, n2, tuple(edges), tuple(sorted(flags)), tuple(sorted(premarked))))
    finally:
        try:
            ctx.close_db_conn()
        except Exception:
            pass


for _ in range(120 if tier == "quick" else 3000):
    n2 = rng.randint(2, 5)
    n1 = rng.randint(1, n2 - 1)
    pairs = [(a, b) for a in range(n2) for b in range(n2)]
    edges = [p for p in pairs if rng.random() < 0.3]
    flags = {i for i in range(n2) if rng.random() < 0.3}
    premarked = {i for i in range(n1) if rng.random() < 0.2}
    run_reanalysis(n1, n2, edges, flags, premarked)
run_reanalysis(2, 3, [(0, 1), (1, 2)], {0}, set())
finish()
