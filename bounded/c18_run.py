"""C18 bounded tier (stand-in, not counted as proved):
 (1) #expr against a reference evaluator over expression ASTs (all operators),
     each rendered with minimal and with full parenthesisation, random spacing
     and letter case;
 (2) string functions against executable reference definitions over all strings
     on a small alphabet x offsets in [-10,10];
 (3) formatnum then formatnum|R is the identity on plain numerals for every
     shipped locale."""
import itertools
import json
import math
import random
import sys
from pathlib import Path

from bounded.harness import emit, new_ctx, payload, quiet_stdout

P = payload()
tier = P.get("tier", "quick")
seed = int(P.get("seed", 0))
rng = random.Random(seed)

import wikitextprocessor  # noqa: E402
from wikitextprocessor import Wtp  # noqa: E402
from wikitextprocessor.parserfns import call_parser_function  # noqa: E402

failures = {}
evaluations = 0
distinct = set()
samples = []


def fail(ident, what, witness, wclass="value"):
    if ident not in failures:
        failures[ident] = {"ident": ident, "witness_class": wclass, "what": what, "witness": witness}


ctx = new_ctx({})
ctx.start_page("Tt")


def pf(name, *args):
    global evaluations
    evaluations += 1
    try:
        with quiet_stdout():
            return call_parser_function(ctx, name, list(args), lambda x: x)
    except Exception as ex:      # an escaping exception is a wrong value too (C05 reports it as such)
        return f"<<raised {type(ex).__name__}>>"


# ------------------------------------------------------------------ (1) #expr
# precedence levels, loosest first (MediaWiki Help:Extension:ParserFunctions##expr)
LEVELS = [["or"], ["and"], ["=", "!=", "<>", "<", ">", "<=", ">="], ["round"], ["+", "-"],
          ["*", "/", "div", "mod"], ["^"]]
UNARY_FN = ["not", "ceil", "trunc", "floor", "abs", "sqrt", "exp", "ln", "sin", "cos", "tan", "acos", "asin", "atan"]
PREC = {op: i for i, ops in enumerate(LEVELS) for op in ops}
P_UNARYFN = len(LEVELS)        # binds tighter than ^
P_E = len(LEVELS) + 1          # binary e
P_UMINUS = len(LEVELS) + 2
P_ATOM = len(LEVELS) + 3


class Err(Exception):
    pass


def ref_eval(t):
    k = t[0]
    if k == "num":
        return t[1]
    if k == "const":
        return math.pi if t[1] == "pi" else math.e
    if k == "neg":
        return -ref_eval(t[1])
    if k == "fn":
        x = ref_eval(t[2])
        f = t[1]
        try:
            if f == "not":
                return int(not x)
            if f == "sqrt":
                if x < 0:
                    raise Err("sqrt")
                return math.sqrt(x)
            if f == "abs":
                return abs(x)
            if f == "ln":
                return math.log(x)
            return getattr(math, f)(x)
        except (ValueError, OverflowError, TypeError):
            raise Err(f)
    if k == "e":
        a, b = ref_eval(t[1]), ref_eval(t[2])
        if isinstance(a, int) and isinstance(b, int):
            if b >= 0:
                return a * 10 ** b
            r, rem = a, b
            while rem < 0:
                if r % 10 == 0:
                    r //= 10
                    rem += 1
                else:
                    # trailing zeros of the mantissa are given up exactly, the rest is one floating-point scaling
                    return r * math.pow(10, rem)
            return r
        return a * math.pow(10, b)
    if k == "bin":
        op = t[1]
        a, b = ref_eval(t[2]), ref_eval(t[3])
        try:
            if op == "+":
                return a + b
            if op == "-":
                return a - b
            if op == "*":
                return a * b
            if op in ("/", "div"):
                if b == 0:
                    raise Err("div0")
                return a / b
            if op == "mod":
                if b == 0:
                    raise Err("div0")
                if not (float(a).is_integer() and float(b).is_integer()):
                    # the remainder for non-integer operands is ill-conditioned (one ulp in an operand moves the
                    # result by the whole modulus): outside the envelope of the comparison
                    raise Err("mod of non-integers")
                return a % b
            if op == "^":
                return math.pow(a, b)
            if op == "round":
                return round(a, b)
            if op == "=":
                return int(a == b)
            if op in ("!=", "<>"):
                return int(a != b)
            if op == "<":
                return int(a < b)
            if op == ">":
                return int(a > b)
            if op == "<=":
                return int(a <= b)
            if op == ">=":
                return int(a >= b)
            if op == "and":
                return 1 if a and b else 0
            if op == "or":
                return 1 if a or b else 0
        except (ValueError, OverflowError, TypeError, ZeroDivisionError):
            raise Err(op)
    raise AssertionError(t)


def prec(t):
    return {"num": P_ATOM, "const": P_ATOM, "neg": P_UMINUS, "fn": P_UNARYFN, "e": P_E}.get(t[0]) \
        if t[0] != "bin" else PREC[t[1]]


def render(t, full, sp):
    def word(w):
        if w.isalpha() and rng.random() < 0.3:
            w = w.upper()
        return w
    k = t[0]
    if k == "num":
        return repr(t[1]) if not isinstance(t[1], float) else ("%r" % t[1])
    if k == "const":
        return rng.choice([t[1], t[1].upper(), t[1].capitalize()])
    if k == "neg":
        inner = render(t[1], full, sp)
        if full or prec(t[1]) < P_UMINUS:
            inner = "(" + inner + ")"
        return "-" + inner
    if k == "fn":
        inner = render(t[2], full, sp)
        if full or prec(t[2]) < P_UNARYFN:
            inner = "(" + inner + ")"
        return word(t[1]) + " " + inner
    if k in ("e", "bin"):
        op = "e" if k == "e" else t[1]
        l, r = (t[1], t[2]) if k == "e" else (t[2], t[3])
        p = prec(t)
        ls, rs = render(l, full, sp), render(r, full, sp)
        # left-associative: the right operand needs brackets at equal precedence
        if full or prec(l) < p:
            ls = "(" + ls + ")"
        if full or prec(r) <= p:
            rs = "(" + rs + ")"
        s = sp() if not op.isalpha() else " "
        return ls + (s or ("" if not op.isalpha() else " ")) + word(op) + (s or ("" if not op.isalpha() else " ")) + rs
    raise AssertionError(t)


def gen(depth):
    if depth == 0 or rng.random() < 0.25:
        if rng.random() < 0.12:
            return ("const", rng.choice(["pi", "e"]))
        return ("num", rng.choice([0, 1, 2, 3, 5, 7, 10, 2.5, 0.5, 12]))
    c = rng.random()
    if c < 0.12:
        return ("neg", gen(depth - 1))
    if c < 0.3:
        return ("fn", rng.choice(UNARY_FN), gen(depth - 1))
    if c < 0.36:
        return ("e", ("num", rng.choice([1, 2, 15, 300, 10, 1200, 50, 0])), ("num", rng.choice([0, 1, 2, -1, -2, -3, -4, 3])))
    op = rng.choice([o for ops in LEVELS for o in ops])
    return ("bin", op, gen(depth - 1), gen(depth - 1))


def fmt_ref(v):
    if isinstance(v, float):
        if math.isinf(v) or math.isnan(v):
            raise Err("nonfinite")
        if v == math.floor(v):
            return str(int(v))
    return str(v)


def close(a, b):
    if a == b:
        return True
    try:
        fa, fb = float(a), float(b)
        return math.isclose(fa, fb, rel_tol=1e-9, abs_tol=1e-12)
    except ValueError:
        return False


def all_trees(depth):
    nums = [("num", 2), ("num", 3), ("const", "pi")]
    if depth == 0:
        return nums
    sub = all_trees(depth - 1)
    out = list(nums)
    for op in [o for ops in LEVELS for o in ops]:
        for a in sub:
            for b in sub:
                out.append(("bin", op, a, b))
    for f in ("not", "abs", "floor"):
        for a in sub:
            out.append(("fn", f, a))
    for a in sub:
        out.append(("neg", a))
    return out


trees = all_trees(1) + [t for t in all_trees(2) if rng.random() < (0.02 if tier == "quick" else 0.3)]
trees += [gen(rng.randint(2, 5)) for _ in range(3000 if tier == "quick" else 60000)]
n_expr = 0
for t in trees:
    try:
        want = fmt_ref(ref_eval(t))
    except Err:
        want = None
    except (OverflowError, ValueError, ZeroDivisionError, TypeError):
        want = None
    outs = []
    for full in (False, True):
        sp = (lambda: rng.choice(["", " ", "  "]))
        src = render(t, full, sp)
        try:
            got = pf("#expr", src)
        except Exception as ex:
            fail("parserfns:expr_fn#bounded-no-raise", f"{type(ex).__name__}: {ex}", {"expr": src}, type(ex).__name__)
            continue
        outs.append((src, got))
        n_expr += 1
        if want is not None:
            if not close(got, want):
                fail("parserfns:expr_fn#equals-reference-value", f"{src!r} -> {got!r}, reference {want!r}",
                     {"expr": src, "got": got, "want": want})
        elif "error" not in got.lower() and "divide by zero" not in got.lower() and "sqrt of negative" not in got.lower():
            # reference says domain/overflow error: any in-band error text is accepted; what is never a value of an
            # expression over the real doubles is something that does not read as a real number
            try:
                float(got)
            except ValueError:
                fail("parserfns:expr_fn#equals-reference-value[not-a-real-number]",
                     f"{src!r} -> {got!r}: neither a real number nor an in-band error", {"expr": src, "got": got}, "not-real")
    if len(outs) == 2 and want is not None and not close(outs[0][1], outs[1][1]):
        fail("parserfns:expr_fn#independent-of-redundant-parentheses",
             f"{outs[0][0]!r} -> {outs[0][1]!r} but {outs[1][0]!r} -> {outs[1][1]!r}", {"a": outs[0], "b": outs[1]})
    if want is not None:
        distinct.add(("expr", want))
samples.append({"expr_trees": len(trees), "example": render(trees[-1], False, lambda: " ")})

# powers are taken in double precision (math.pow): outside the reals / beyond the double range they are in-band errors,
# and a power above 2**53 is the double, not the exact integer
POW_ERR = ["(-8)^(1/3)", "abs((-4)^0.5)", "(-4) ^ 0.5", "ABS( (-4)^.5 )", "10^400", "(10^400)*0", "2^1024", "0^-1",
           "((-8)^0.5)+1", "1+(-2.5)^2.5"]
POW_VAL = [("(3^40) mod 7", "6"), ("3^40 mod 7", "6"), ("( 3 ^ 40 ) MOD 7", "6"), ("(7^30) mod 10", str(int(math.pow(7, 30) % 10))),
           ("2^10", "1024"), ("2^-1", "0.5"), ("(-2)^3", "-8"), ("2^3^2", "64"), ("0^0", "1"),
           ("(2^60+1) mod 2", str(int((math.pow(2, 60) + 1) % 2)))]
# a division by zero is an in-band error whatever follows it at the same precedence level
for src in ["1/0", "1/0*2", "1/0*0", "1 mod 0 * 3", "1 div 0 div 2", "2*(1/0)", "1/0/2", "5 - 1/0*0", "(1/0)*0"]:
    got = pf("#expr", src)
    n_expr += 1
    if got != "Divide by zero" and 'class="error"' not in got:
        fail("parserfns:expr_fn#equals-reference-value[not-a-real-number]",
             f"{src!r} -> {got!r}: a division by zero is reported in-band, never dropped or repeated",
             {"expr": src, "got": got}, "div0")
for src in POW_ERR:
    got = pf("#expr", src)
    n_expr += 1
    if 'class="error"' not in got:
        fail("parserfns:expr_fn#equals-reference-value[power-outside-the-real-doubles]",
             f"{src!r} -> {got!r}: the power has no real double value (domain or range error), reference: in-band error",
             {"expr": src, "got": got}, "pow-domain")
for src, want in POW_VAL:
    got = pf("#expr", src)
    n_expr += 1
    if not close(got, want):
        fail("parserfns:expr_fn#equals-reference-value[double-precision-power]", f"{src!r} -> {got!r}, reference {want!r}",
             {"expr": src, "got": got, "want": want}, "pow-value")

# ------------------------------------------------------------------ (2) string functions
AL = ["a", "b", "/"]
maxlen = 4 if tier == "quick" else 6
strings = [""] + ["".join(p) for n in range(1, maxlen + 1) for p in itertools.product(AL, repeat=n)]
if tier == "quick":
    strings = [s for s in strings if len(s) <= 3] + rng.sample([s for s in strings if len(s) > 3], 40)
offsets = list(range(-10, 11))


def mb_substr(s, start, length):
    n = len(s)
    b = max(0, n + start) if start < 0 else min(start, n)
    if length == 0:
        e = n
    elif length < 0:
        e = max(b, n + length)
    else:
        e = min(n, b + length)
    return s[b:e]


def ref_pad(v, cnt, pad, left):
    if len(v) >= cnt or not pad:
        return v
    fill = (pad * (cnt // len(pad) + 1))[: cnt - len(v)]
    return fill + v if left else v + fill


def ref_explode(s, delim, pos, limit=None):
    parts = s.split(delim)
    if limit is not None and limit > 0 and len(parts) > limit:
        parts = parts[: limit - 1] + [delim.join(parts[limit - 1:])]
    if pos < 0:
        pos += len(parts)
    return parts[pos] if 0 <= pos < len(parts) else ""


def ref_titleparts(t, num, first):
    # MediaWiki: #titleparts: pagename | number of segments | first segment (1-based; negatives from the end)
    bits = t.split("/")
    n = len(bits)
    if first > 0:
        off = first - 1
    elif first < 0:
        off = max(0, n + first)
    else:
        off = 0
    if num == 0:
        ln = None
    elif num < 0:
        ln = max(0, n - off + num)
    else:
        ln = num
    sel = bits[off:] if ln is None else bits[off: off + ln]
    return "/".join(sel)


def ref_titleparts_repo(t, num, first):
    """MediaWiki's rule with the one documented deviation: `first` taken as a 0-based index"""
    bits = t.split("/")
    n = len(bits)
    off = max(0, n + first) if first < 0 else min(first, n)
    if num == 0:
        sel = bits[off:]
    elif num < 0:
        sel = bits[off: off + max(0, n + num)]
    else:
        sel = bits[off: off + num]
    return "/".join(sel)


for s in strings:
    t = s.strip()
    if pf("#len", s) != str(len(t)):
        fail("parserfns:len_fn#equals-spec", f"#len {s!r}", {"s": s})
    if pf("lc", s.upper()) != t.upper().lower() or pf("uc", s) != t.upper():
        fail("parserfns:lc_fn/uc_fn#equals-spec", f"lc/uc {s!r}", {"s": s})
    if pf("ucfirst", s) != t[:1].upper() + t[1:] or pf("lcfirst", s.upper()) != t.upper()[:1].lower() + t.upper()[1:]:
        fail("parserfns:ucfirst_fn/lcfirst_fn#equals-spec", f"ucfirst/lcfirst {s!r}", {"s": s})
    for o in offsets:
        for ln in (offsets if len(s) <= 3 else (0, 1, -1)):
            got = pf("#sub", s, str(o), str(ln))
            if got != mb_substr(t, o, ln):
                fail("parserfns:sub_fn#equals-mb_substr", f"#sub {s!r},{o},{ln} -> {got!r} want {mb_substr(t, o, ln)!r}",
                     {"s": s, "start": o, "length": ln})
        for pad in ("0", "ab", "xyz", ""):
            for name, left in (("padleft", True), ("padright", False)):
                got = pf(name, s, str(o), pad)
                want = ref_pad(s, max(o, 0), pad, left)
                if got != want:
                    fail(f"parserfns:{name}_fn#equals-spec", f"{name} {s!r},{o},{pad!r} -> {got!r} want {want!r}",
                         {"s": s, "count": o, "pad": pad})
        for lim in (1, 2, 3):
            got = pf("#explode", s, "/", str(o), str(lim))
            if got != ref_explode(t, "/", o, lim):
                fail("parserfns:explode_fn#equals-spec", f"#explode {s!r},'/',{o},{lim} -> {got!r} want {ref_explode(t, '/', o, lim)!r}",
                     {"s": s, "pos": o, "limit": lim})
        got = pf("#explode", s, "/", str(o))
        if got != ref_explode(t, "/", o):
            fail("parserfns:explode_fn#equals-spec", f"#explode {s!r},'/',{o} -> {got!r} want {ref_explode(t, '/', o)!r}",
                 {"s": s, "pos": o})
        if t and not t.startswith("/") and not t.endswith("/") and "//" not in t:
            for first in (-2, -1, 0, 1, 2, 3):
                got = pf("#titleparts", s, str(o), str(first))
                want = ref_titleparts(t, o, first)
                if got != want:
                    # known deviation of this implementation (pinned by its own unit tests): the namespace
                    # prefix counts as segment 0 and `first` is a 0-based index.  A mismatch explained by
                    # exactly that model gets its own witness class; anything else is a new violation.
                    dev = ref_titleparts_repo(t, o, first)
                    wc = "known-deviation:0-based-first" if got == dev else "value"
                    fail("parserfns:titleparts_fn#equals-spec" + ("" if wc == "value" else "[0-based-first]"),
                         f"#titleparts {s!r},{o},{first} -> {got!r} want {want!r}", {"s": s, "num": o, "first": first}, wc)
    for nd in ("a", "ab", "/", ""):
        want = t.find(nd or " ")
        if pf("#pos", s, nd) != (str(want) if want >= 0 else ""):
            fail("parserfns:pos_fn#equals-spec", f"#pos {s!r},{nd!r}", {"s": s, "needle": nd})
        want = t.rfind(nd or " ")
        if pf("#rpos", s, nd) != str(want):
            fail("parserfns:rpos_fn#equals-spec", f"#rpos {s!r},{nd!r}", {"s": s, "needle": nd})
        if pf("#replace", s, nd, "X") != t.replace(nd or " ", "X"):
            fail("parserfns:replace_fn#equals-spec", f"#replace {s!r},{nd!r}", {"s": s, "needle": nd})
    distinct.add(("str", s))
for n, (sg, pl) in itertools.product(["0", "1", "2", "1.0", "0+1", "3-2", "11", "-1", " 1 "], [("S", "P")]):
    want = sg if n.strip() in ("1", "1.0", "0+1", "3-2") else pl
    if pf("plural", n, sg, pl) != want:
        fail("parserfns:plural_fn#selects-by-number", f"plural {n!r} -> {pf('plural', n, sg, pl)!r}", {"n": n})
samples.append({"strings": len(strings), "offsets": len(offsets)})

# ------------------------------------------------------------------ (3) formatnum round trip, all locales
data = Path(wikitextprocessor.__file__).parent / "data"
locales = sorted(p.parent.name for p in data.glob("*/localization.json"))
nums = ["0", "7", "12", "123", "1234", "12345", "123456", "1234567", "1000000", "1234.5", "0.25", "12345678.125",
        "999999999999", "1000", "100"]
nums += ["".join(rng.choice("0123456789") for _ in range(rng.randint(1, 12))).lstrip("0") or "0"
         for _ in range(20 if tier == "quick" else 400)]
nums += [n + "." + "".join(rng.choice("0123456789") for _ in range(rng.randint(1, 4)))
         for n in nums[:10] if "." not in n]
nloc = 0
for lc in locales + ["zz-nonexistent"]:
    try:
        with quiet_stdout():
            c2 = Wtp(lang_code=lc, quiet=True)
    except Exception:
        continue
    nloc += 1
    c2.start_page("Tt")
    for n in nums:
        evaluations += 1
        with quiet_stdout():
            f = call_parser_function(c2, "formatnum", [n], lambda x: x)
            back = call_parser_function(c2, "formatnum", [f, "R"], lambda x: x)
        if back != n:
            fail("parserfns:formatnum_fn#R-inverts-formatnum", f"locale {lc}: {n!r} -> {f!r} -> {back!r}",
                 {"locale": lc, "n": n, "formatted": f, "back": back})
            break
    distinct.add(("locale", lc))
    c2.close_db_conn()
samples.append({"locales": nloc, "numerals": len(nums)})
# several contexts of different locales ALIVE AT THE SAME TIME: each keeps its own separators and grouping
alive = {}
for lc in ("en", "de", "hi", "fr", "fi", "zz-nonexistent"):
    try:
        with quiet_stdout():
            alive[lc] = Wtp(lang_code=lc, quiet=True)
        alive[lc].start_page("Tt")
    except Exception:
        pass
single = {}
for lc in alive:         # what each locale gives on its own (computed above, one context at a time) is recomputed here
    with quiet_stdout():
        c1 = Wtp(lang_code=lc, quiet=True)
    c1.start_page("Tt")
    single[lc] = [call_parser_function(c1, "formatnum", [n], lambda x: x) for n in nums[:12]]
    c1.close_db_conn()
for lc, c2 in alive.items():
    evaluations += 1
    with quiet_stdout():
        now = [call_parser_function(c2, "formatnum", [n], lambda x: x) for n in nums[:12]]
        backs = [call_parser_function(c2, "formatnum", [f, "R"], lambda x: x) for f in now]
    if backs != nums[:12]:
        fail("parserfns:formatnum_fn#R-inverts-formatnum", f"locale {lc} with other contexts alive: {nums[:12]} -> {now} -> {backs}",
             {"locale": lc, "contexts_alive": sorted(alive)}, "several-contexts")
for c2 in alive.values():
    c2.close_db_conn()

emit({"evaluations": evaluations, "distinct_nontrivial": len(distinct),
      "rule": "distinct reference values of #expr trees + distinct input strings of the string-function grid + "
              "distinct locales of the formatnum round trip",
      "failures": list(failures.values()), "samples": samples,
      "bound": f"{len(trees)} expression trees (all of depth<=1 over {sum(len(l) for l in LEVELS)} binary operators, sampled "
               f"to depth 5) x 2 parenthesisations; {len(strings)} strings over {AL} x offsets [-10,10]; "
               f"{len(nums)} numerals x {nloc} locales"})
