"""Shared pieces of the bounded stand-in tier.  Runs under /venv/bin/python
(the interpreter that runs the repo) with PYTHONPATH=/repo/src:/verif."""
from __future__ import annotations

import json
import os
import random
import sys
import tempfile
from contextlib import contextmanager


# every temporary file of a bounded run (the contexts' own `wikitextprocessor_tempdb*` databases included) lives in
# one scratch directory that is removed when the run ends
import atexit
import shutil

_SCRATCH = tempfile.mkdtemp(prefix="verif_bounded_")
tempfile.tempdir = _SCRATCH
atexit.register(shutil.rmtree, _SCRATCH, True)


def payload():
    return json.loads(sys.stdin.read() or "{}")


def emit(obj):
    sys.stdout.write("\n" + json.dumps(obj, default=str) + "\n")


def new_ctx(templates: dict | None = None, noisy: bool = False, **kw):
    """noisy: keep the default quiet_output=False, so that the message formatter runs (output goes to the
    swallowed stdout of quiet_stdout())"""
    from wikitextprocessor import Wtp
    ctx = Wtp(quiet=True, quiet_output=True, **kw) if ("quiet_output" in Wtp.__init__.__code__.co_varnames and not noisy) \
        else Wtp(quiet=True, **kw)
    for name, body in (templates or {}).items():
        ctx.add_page("Template:" + name, 10, body)
    ctx.db_conn.commit()
    return ctx


@contextmanager
def quiet_stdout():
    import io
    old = sys.stdout
    sys.stdout = io.StringIO()
    try:
        yield
    finally:
        sys.stdout = old


class Monitor:
    """sys.monitoring based run-time reading of 'balance' style contracts on
    functions (including closures) selected by (filename suffix, qualname)."""

    def __init__(self, selectors, on_enter, on_exit, on_unwind):
        self.selectors = selectors
        self.on_enter, self.on_exit, self.on_unwind = on_enter, on_exit, on_unwind
        self.tool = 3
        self.calls = 0

    def _match(self, code):
        fn = code.co_filename
        q = code.co_qualname
        for suffix, qual in self.selectors:
            if fn.endswith(suffix) and q == qual:
                return True
        return False

    def start(self):
        mon = sys.monitoring
        mon.use_tool_id(self.tool, "verif")
        E = mon.events
        cache = {}

        def ok(code):
            r = cache.get(code)
            if r is None:
                r = cache[code] = self._match(code)
            return r

        def py_start(code, off):
            if not ok(code):
                return mon.DISABLE
            self.calls += 1
            self.on_enter(code, sys._getframe(1))

        def py_return(code, off, retval):
            if not ok(code):
                return mon.DISABLE
            self.on_exit(code, sys._getframe(1), retval)

        def py_unwind(code, off, exc):
            if ok(code):
                self.on_unwind(code, sys._getframe(1), exc)

        mon.register_callback(self.tool, E.PY_START, py_start)
        mon.register_callback(self.tool, E.PY_RETURN, py_return)
        mon.register_callback(self.tool, E.PY_UNWIND, py_unwind)
        mon.set_events(self.tool, E.PY_START | E.PY_RETURN | E.PY_UNWIND)

    def stop(self):
        mon = sys.monitoring
        mon.set_events(self.tool, 0)
        mon.free_tool_id(self.tool)


def find_ctx(frame):
    """the Wtp object visible from a frame (self/ctx/wtp local or closure)"""
    from wikitextprocessor import Wtp
    f = frame
    for _ in range(6):
        if f is None:
            break
        for n in ("self", "ctx", "wtp"):
            v = f.f_locals.get(n)
            if isinstance(v, Wtp):
                return v
        f = f.f_back
    return None


class BoundedTimeout(Exception):
    """an expand()/parse() call of the code under test did not return within the watchdog budget"""


def install_watchdog(seconds: int = 30, give_up_after: int = 3):
    """wrap Wtp.expand / Wtp.parse (outermost calls only) in a SIGALRM watchdog: a call that does not return raises
    BoundedTimeout, which the tiers record like any other exception; after `give_up_after` timeouts every further call
    fails at once, so that a non-terminating mutant ends the tier in minutes instead of never"""
    import signal
    from wikitextprocessor import Wtp
    state = {"depth": 0, "timeouts": 0}

    def on_alarm(*a):
        raise BoundedTimeout(f"no result within {seconds} s")

    signal.signal(signal.SIGALRM, on_alarm)

    def wrap(orig):
        def wrapped(self, *a, **k):
            if state["depth"] > 0:
                return orig(self, *a, **k)
            if state["timeouts"] >= give_up_after:
                raise BoundedTimeout(f"skipped after {give_up_after} timeouts")
            state["depth"] += 1
            signal.alarm(seconds)
            try:
                return orig(self, *a, **k)
            except BoundedTimeout:
                state["timeouts"] += 1
                raise
            finally:
                signal.alarm(0)
                state["depth"] -= 1
        wrapped.__wrapped__ = orig
        return wrapped
    if not hasattr(Wtp.expand, "__wrapped__"):
        Wtp.expand = wrap(Wtp.expand)
        Wtp.parse = wrap(Wtp.parse)
    return state
