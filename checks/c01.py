"""check C01: parse() is total and returns a well-formed tree (partial)."""
import sys

import ast

from contracts import c01, c01_stack
from pyvc import check, effects, loader, vx


def stack_side_conditions(rep):
    """syntactic frame conditions the stack contracts rest on, from the real source"""
    infos = effects.analyze({"parser_stack"})
    idx = effects.simple_name_index(infos)
    contracted = {"_parser_push", "_parser_pop", "close_begline_lists", "process_text", "parse_encoded",
                  "table_check_attrs", "table_row_check_attrs", "_parser_have", "_parser_merge_str_children"} \
        | set(c01_stack.HANDLERS) | set(c01_stack.ASSUMED_OTHER)
    seeds = {k for k, v in infos.items() if v.writes} | {"parser:parse_encoded"}
    reach = set(seeds)
    changed = True
    while changed:
        changed = False
        names = {infos[k].qual.rsplit(".", 1)[-1] for k in reach}
        for k, fi in infos.items():
            if k not in reach and fi.calls & names:
                reach.add(k)
                changed = True
    # (1) every function of parser.py that can reach a write of the node stack is under the stack contract
    #     (node constructors excepted: they are modelled, and only collide by name with Wtp.__init__)
    missing = sorted(k for k in reach if k.startswith("parser:") and not k.endswith(".__init__")
                     and k.split(":")[1] not in contracted)
    rep.add_obligation("parser#frame#every-function-that-can-reach-the-node-stack-has-the-stack-contract", "frame",
                       "proved" if not missing else "refuted", "syntactic", detail=str(missing)[:200])
    # (2) inside those functions every call by name that can reach the node stack is a call of a contracted function
    bad = []
    for k in sorted(reach):
        if not k.startswith("parser:") or k.endswith(".__init__"):
            continue
        for n in sorted(infos[k].calls):
            if n in contracted or n == "__init__":
                continue
            if any(c in reach for c in idx.get(n, [])):
                bad.append(f"{k} calls {n}")
    rep.add_obligation("parser#frame#calls-that-can-reach-the-node-stack-go-to-contracted-functions", "frame",
                       "proved" if not bad else "refuted", "syntactic", detail=str(bad)[:200])
    # (3) the only non-name callables called there are tokenops[...] in process_text, and every value ever stored
    #     in tokenops is a token handler under the stack contract
    opaque = sorted((k, c) for k in reach if k.startswith("parser:") for c in infos[k].opaque_calls
                    if not (k == "parser:process_text" and c.startswith("tokenops[")))
    rep.add_obligation("parser#frame#no-other-indirect-calls-in-stack-functions", "frame",
                       "proved" if not opaque else "refuted", "syntactic", detail=str(opaque)[:200])
    mod = loader.module("parser")
    vals, odd = set(), []
    for st in mod.tree.body:
        tgt = None
        if isinstance(st, (ast.Assign, ast.AnnAssign)):
            t0 = st.targets[0] if isinstance(st, ast.Assign) else st.target
            if isinstance(t0, ast.Name) and t0.id == "tokenops" and isinstance(st.value, ast.Dict):
                for v in st.value.values:
                    (vals.add(v.id) if isinstance(v, ast.Name) else odd.append(loader.norm(v)))
                continue
        for n in ast.walk(st):
            if isinstance(n, ast.Assign) and isinstance(n.targets[0], ast.Subscript) and \
                    isinstance(n.targets[0].value, ast.Name) and n.targets[0].value.id == "tokenops":
                (vals.add(n.value.id) if isinstance(n.value, ast.Name) else odd.append(loader.norm(n.value)))
            elif isinstance(n, ast.Call) and isinstance(n.func, ast.Attribute) and isinstance(n.func.value, ast.Name) \
                    and n.func.value.id == "tokenops" and n.func.attr in effects.MUTATORS:
                odd.append(loader.norm(n))
    stray = sorted(vals - set(c01_stack.HANDLERS)) + odd
    rep.add_obligation("parser#frame#tokenops-holds-only-contracted-token-handlers", "frame",
                       "proved" if vals and not stray else "refuted", "syntactic", detail=str(stray)[:200])


def main(tier):
    rep = check.Report("C01", tier, "other")
    reg = vx.Registry()
    cs = c01.contracts()
    for c in cs:
        reg.add(c)
    c01.setup_registry(reg)
    rep.add_static(check.run_contracts(cs, reg, 20000 if tier == "quick" else 120000))
    # stack discipline of the token handlers (own registry: the same functions carry a second contract here)
    reg2 = vx.Registry()
    cs2 = c01_stack.contracts()
    for c in cs2:
        reg2.add(c)
    c01_stack.setup_registry(reg2)
    rep.add_static(check.run_contracts(cs2, reg2, 20000 if tier == "quick" else 120000))
    stack_side_conditions(rep)
    cs = cs + cs2
    try:
        rep.bounded = check.run_repo_py("bounded/c01_run.py", {"tier": tier, "seed": rep.seed}, timeout=12000)
    except Exception as ex:
        rep.crashes.append(f"bounded tier: {ex}")
    rep.explanation = (
        "P: parse_encoded sets the per-parse flags before the first token is processed and leaves parser_stack empty "
        "on normal AND exceptional exit (frame mode incl. the finally block); _parser_merge_str_children: with the "
        "children list abstracted to (well-formed so far, kind of last element) -- an exact homomorphic image under "
        "append -- the loop invariant 'no empty string, no two adjacent strings, ends with a node or is empty' is "
        "preserved and the list assigned to node.children is well-formed (z3, given that _finalize_expand returns a "
        "str). The int() conversion in TemplateNode.template_parameters is covered by C05's guard lemma. "
        "_parser_push: the new node becomes the last child of the old top and the new top, after pending strings were "
        "finalized. STACK DISCIPLINE (contracts/c01_stack.py; ghost view of ctx.parser_stack as a string with one "
        "character per node = its kind, pyvc/pnodes.py): every function of parser.py that can reach a write of the "
        "stack has the contract `requires/ensures: non-empty, bottom node ROOT, no other ROOT`; for "
        f"{4 + len(c01_stack.VERIFIED) + 4} of them (_parser_push with its exact effect, _parser_pop, _parser_have "
        "with its exact result -- a scan that runs to exhaustion only if every node took the fall-through path --, "
        "close_begline_lists, process_text, parse_encoded, the two attribute checkers and "
        f"{len(c01_stack.VERIFIED)} token handlers incl. text_fn, tag_fn, magic_fn) the real body is verified against "
        "it: every ctx.parser_stack[i] / .pop() is in range, every _parser_pop call has two nodes on the stack, every "
        "_parser_push pushes a non-ROOT kind, loops by invariant; consequently parse_encoded's closing loop leaves "
        "exactly the root and its `assert len(ctx.parser_stack) == 1` cannot fail. "
        f"{len(c01_stack.ASSUMED) + len(c01_stack.ASSUMED_OTHER)} functions keep an ASSUMED contract (listed under "
        "assumptions with the obligation local reasoning cannot discharge): they are covered by the bounded tier only, "
        "which reads their contract (and _parser_pop's precondition) at run time on every call made while parsing the "
        "generated documents (sys.monitoring; count in bounded_tier.monitored_calls). "
        "Syntactic side conditions: the call graph towards the stack stays inside the contracted set, tokenops holds "
        "only contracted handlers. NOT proved: absence of other exceptions in the handlers, tree shape beyond the "
        "children lists, the tokenizer regexes. "
        "B (bounded, not counted as proved): Wtp.parse with the whole statement as run-time postcondition.")
    rep.assumptions += [f"assumed stack contract of {h}: {w}" for h, w in
                        list(c01_stack.ASSUMED.items()) + list(c01_stack.ASSUMED_OTHER.items())]
    rep.assumptions += ["NodeKind members, the kind-set constants, SUBTITLE_TO_KIND and KIND_TO_LEVEL are read from the "
                        "module source (dict display / comprehension plus module-level item assignments)",
                        "assert statements other than the one named are not checked in the stack contracts",
                        "_finalize_expand returns a str", "tokenizer is unverified (bounded tier only)",
                        "#invoke pages are skipped when they would start the Lua sandbox (libraries absent offline)"]
    return rep.finish(replayer=replay, expected_min_functions=len(cs))


def replay(ob):
    b = check.run_repo_py("bounded/c01_run.py", {"tier": "quick", "seed": 0}, timeout=1200)
    return {"reproduced": bool(b.get("failures")), "witness": b.get("failures", [])[:2], "how": "bounded/c01_run.py"}


if __name__ == "__main__":
    sys.exit(main(sys.argv[1] if len(sys.argv) > 1 else "quick"))
