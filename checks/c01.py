"""check C01: parse() is total and returns a well-formed tree (partial)."""
import sys

from contracts import c01
from pyvc import check, vx


def main(tier):
    rep = check.Report("C01", tier, "other")
    reg = vx.Registry()
    cs = c01.contracts()
    for c in cs:
        reg.add(c)
    c01.setup_registry(reg)
    rep.add_static(check.run_contracts(cs, reg, 20000 if tier == "quick" else 120000))
    try:
        rep.bounded = check.run_repo_py("bounded/c01_run.py", {"tier": tier, "seed": rep.seed}, timeout=12000)
    except Exception as ex:
        rep.crashes.append(f"bounded tier: {ex}")
    rep.explanation = (
        "P: parse_encoded sets the per-parse flags before the first token is processed and leaves parser_stack empty "
        "on normal AND exceptional exit (frame mode incl. the finally block); _parser_merge_str_children: with the "
        "children list abstracted to (well-formed so far, kind of last element) -- an exact homomorphic image under "
        "append -- the loop invariant 'no empty string, no two adjacent strings, ends with a node or is empty' is "
        "preserved and the list assigned to node.children is well-formed (z3, given that _finalize_expand returns a "
        "str). The int() conversion in TemplateNode.template_parameters is covered by C05's guard lemma. "
        "NOT proved: that the ~35 token handlers never raise and keep the stack floor (they interlock through "
        "recursion and mode flags); the tokenizer regexes. "
        "B (bounded, not counted as proved): Wtp.parse with the whole statement as run-time postcondition.")
    rep.assumptions += ["_finalize_expand returns a str", "token handlers / tokenizer are unverified (bounded tier only)",
                        "#invoke pages are skipped when they would start the Lua sandbox (libraries absent offline)"]
    return rep.finish(replayer=replay, expected_min_functions=len(cs))


def replay(ob):
    b = check.run_repo_py("bounded/c01_run.py", {"tier": "quick", "seed": 0}, timeout=1200)
    return {"reproduced": bool(b.get("failures")), "witness": b.get("failures", [])[:2], "how": "bounded/c01_run.py"}


if __name__ == "__main__":
    sys.exit(main(sys.argv[1] if len(sys.argv) > 1 else "quick"))
