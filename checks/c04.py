"""check C04: template expansion agrees with the reference transclusion semantics (partial)."""
import sys

from contracts import c04
from pyvc import check, vx


def main(tier):
    rep = check.Report("C04", tier, "other")
    reg = vx.Registry()
    cs = c04.contracts()
    for c in cs:
        reg.add(c)
    c04.setup_registry(reg)
    rep.add_static(check.run_contracts(cs, reg, 20000 if tier == "quick" else 120000))
    try:
        rep.bounded = check.run_repo_py("bounded/c04_run.py", {"tier": tier, "seed": rep.seed}, timeout=6000)
    except Exception as ex:
        rep.crashes.append(f"bounded tier: {ex}")
    rep.explanation = (
        "P: add_newline_to_expansion, #if and #ifeq equal their reference definitions for every argument count and "
        "every total expander with E('') == ''; _unexpanded_arg's format; data-flow obligations on every path of the "
        "template branch of expand_recurse (frame mode, ghost call log): each argument value stored in the argument "
        "map is the result of expanding that argument in the CALLER's frame with everything expanded, and the body "
        "is parameter-substituted with exactly this call's map before it is expanded in the new frame. "
        "NOT proved: the argument-map loop as a whole against spec_argmap, #switch, _template_to_body (regex-only), "
        "the encoder. B (bounded, not counted as proved): expand against an executable reference transclusion over "
        "generated acyclic libraries; includable part over all balanced tag strings.")
    rep.assumptions += ["expander callback: total, E('') == ''", "user hooks return Optional[str]",
                        "callee contracts of get_page & co. (C10)"]
    return rep.finish(replayer=replay, expected_min_functions=len(cs))


def replay(ob):
    b = check.run_repo_py("bounded/c04_run.py", {"tier": "quick", "seed": 0}, timeout=1200)
    known = check.load_known()
    fresh = [f for f in b.get("failures", []) if not check.is_known("C04", f["ident"], f.get("witness_class", ""), known)]
    return {"reproduced": bool(fresh), "witness": fresh[:2], "how": "bounded/c04_run.py reference transclusion differential"}


if __name__ == "__main__":
    sys.exit(main(sys.argv[1] if len(sys.argv) > 1 else "quick"))
