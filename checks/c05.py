"""check C05: termination and in-band failure (partial; see DESIGN §4 C05)."""
import ast
import json
import sys
from pathlib import Path

import z3

from contracts import c05
from pyvc import check, loader, smt, vx


def shipped_data_facts(rep):
    """F: facts assumed about ctx.NAMESPACE_DATA hold in every shipped
    namespaces.json (complete enumeration of the data directory)"""
    data = loader.PKG / "data"
    files = sorted(data.glob("*/namespaces.json"))
    need = ["Talk", "Template", "Module", "Project", "MediaWiki", "Main"]
    bad = []
    for f in files:
        try:
            d = json.loads(f.read_text(encoding="utf-8"))
        except Exception as ex:
            bad.append(f"{f.parent.name}: unreadable {ex}")
            continue
        for k in need:
            if k not in d or "name" not in d[k] or "id" not in d[k] or "aliases" not in d[k]:
                bad.append(f"{f.parent.name}: {k}")
    rep.add_obligation("data:namespaces.json#finite#required-keys-present-in-all-shipped-files", "finite",
                       "proved" if files and not bad else "refuted", "enumeration",
                       detail=f"{len(files)} files; missing: {bad[:5]}")
    rep.assumed_validation.append({"what": "namespace table facts", "files": len(files), "violations": len(bad)})


def time_table_shape(rep):
    """every value of the #time letter table is a string constant or a callable (lambda / function name): the
    `assert callable(v)` in format_with_wiki_timeformat.fmt_repl cannot fail (finite, read from the module source)"""
    import ast
    mod = loader.module("parserfns")
    node = mod.top.get("time_fmt_map")
    bad, n = [], 0
    val = getattr(node, "value", None)
    if not isinstance(val, ast.Dict):
        bad.append("time_fmt_map is not a dict literal")
    else:
        for k, v in zip(val.keys, val.values):
            n += 1
            ok = (isinstance(v, ast.Constant) and isinstance(v.value, str)) or isinstance(v, ast.Lambda) or \
                (isinstance(v, ast.Name) and (v.id in mod.functions if hasattr(mod, "functions") else True))
            if not ok or not (isinstance(k, ast.Constant) and isinstance(k.value, str)):
                bad.append(loader.norm(k)[:20])
    rep.add_obligation("parserfns:time_fmt_map#finite#keys-are-strings-values-are-strings-or-callables", "finite",
                       "proved" if n and not bad else "refuted", "enumeration", detail=f"{n} entries; offending: {bad[:5]}")


def guarded_conversions(rep):
    """P4: every int(NAME) outside parserfns.py is dominated by NAME.isdecimal()
    (same `and` chain or enclosing if); lemma isdecimal(s) => int-parsable(s) by z3
    over the exact Unicode tables; the digit-limit clause is a separate obligation"""
    s = z3.String("s")
    lemmas = {}
    for guard, cls in (("isdecimal", "decimal"), ("isdigit", "digit")):
        v = smt.discharge([z3.InRe(s, z3.Plus(smt.RE(cls)))], z3.InRe(s, smt.RE_INT_OK()), 20000)
        lemmas[guard] = v
    sites = 0
    for m in ("core", "luaexec", "parser", "node_expand", "wikihtml", "dumpparser", "interwiki", "wikidata"):
        mod = loader.module(m)
        for n in ast.walk(mod.tree):
            if not (isinstance(n, ast.Call) and isinstance(n.func, ast.Name) and n.func.id == "int"
                    and len(n.args) == 1 and isinstance(n.args[0], ast.Name)):
                continue
            name = n.args[0].id
            fn = n
            while fn is not None and not isinstance(fn, ast.FunctionDef):
                fn = getattr(fn, "_parent", None)
            qual = fn.name if fn is not None else "<module>"
            guard = None
            in_try = False
            p = n
            while p is not None and p is not fn:
                par = getattr(p, "_parent", None)
                if isinstance(par, ast.BoolOp) and isinstance(par.op, ast.And):
                    idx = par.values.index(p)
                    for e in par.values[:idx]:
                        g = _guard_of(e, name)
                        if g:
                            guard = g
                if isinstance(par, ast.If) and p in par.body:
                    for e in ([par.test] if not isinstance(par.test, ast.BoolOp) else
                              (par.test.values if isinstance(par.test.op, ast.And) else [])):
                        g = _guard_of(e, name)
                        if g:
                            guard = guard or g
                if isinstance(par, ast.Try) and p in par.body and any(
                        h.type is None or "ValueError" in loader.norm(h.type) or "Exception" in loader.norm(h.type)
                        for h in par.handlers):
                    in_try = True
                p = par
            ident = f"{m}:{qual}#lemma#int({name}) guarded @ {loader.norm(n)}"
            ordinal = sum(1 for o in rep.extra_obligations if o["ident"].startswith(ident))
            ident = f"{ident}#{ordinal}"
            sites += 1
            if in_try:
                rep.add_obligation(ident, "lemma", "proved", "syntactic", detail="inside try/except ValueError", fn=f"{m}:{qual}")
                continue
            if guard is None:
                rep.add_obligation(ident, "lemma", "refuted", "syntactic", fn=f"{m}:{qual}",
                                   detail="int(str) without isdecimal guard or ValueError handler",
                                   model={"@operand": {"py": "x"}})
                continue
            v = lemmas[guard]
            rep.add_obligation(ident, "lemma", v.status, v.backend, secs=v.secs, fn=f"{m}:{qual}",
                               detail=f"guard {name}.{guard}() => int({name}) parses", model=v.model)
            rep.extra_obligations[-1]["exc"] = "ValueError"
            # digit limit: no length bound at these sites
            rep.add_obligation(f"{m}:{qual}#safety#[digit-limit] int({name})#{ordinal}", "safety", "refuted", "syntactic",
                               fn=f"{m}:{qual}", detail="no length bound on the operand (CPython int<->str digit limit 4300)")
            rep.extra_obligations[-1]["exc"] = "ValueError"
    return sites


def _guard_of(e, name):
    if isinstance(e, ast.Call) and isinstance(e.func, ast.Attribute) and isinstance(e.func.value, ast.Name) \
            and e.func.value.id == name and e.func.attr in ("isdecimal", "isdigit") and not e.args:
        return e.func.attr
    return None


def table_is_total(rep):
    """every value of the PARSER_FUNCTIONS literal is a function under contract
    (or declared out of reach by name)"""
    names = set(c05.parser_function_names())
    under = {c.target.split(":")[1] for c in c05.contracts()} | set(c05.DECLARED_OUT_OF_REACH)
    missing = sorted(names - under)
    rep.add_obligation("parserfns:PARSER_FUNCTIONS#finite#every-entry-is-under-contract", "finite",
                       "proved" if not missing else "refuted", "enumeration", detail=f"missing: {missing}")


def main(tier):
    rep = check.Report("C05", tier, "other")
    reg = vx.Registry()
    cs = c05.contracts()
    for c in cs:
        reg.add(c)
    c05.setup_registry(reg)
    tmo = 20000 if tier == "quick" else 120000
    rep.add_static(check.run_contracts(cs, reg, tmo))
    shipped_data_facts(rep)
    table_is_total(rep)
    nsites = guarded_conversions(rep)
    time_table_shape(rep)
    for name, why in c05.DECLARED_OUT_OF_REACH.items():
        rep.assumptions.append(f"out of reach (bounded tier only): parserfns:{name}: {why}")
    for d in c05.CALLEES:
        rep.assumptions.append(f"assumed callee contract: {d['target']} is total and returns {d['result']} "
                               f"-- owner: {d['owner']}")
    try:
        rep.bounded = check.run_repo_py("bounded/c05_run.py", {"tier": tier, "seed": rep.seed}, timeout=6000)
    except Exception as ex:
        rep.crashes.append(f"bounded tier: {ex}")
    rep.explanation = (
        "P: totality (no escaping exception, result is str) of "
        f"{len(cs) - 2} of the {len(c05.parser_function_names())} distinct parser functions, of call_parser_function and "
        "of detect_expand_template_loop, by value-mode symbolic execution of the real bodies: one safety obligation "
        "per raising operation (index, key, int(), division, unpack, None attribute) discharged by z3 for argument "
        f"lists of any length and a total expander; {nsites} int() conversion sites outside parserfns.py proved "
        "guarded via the lemma isdecimal(s) => int-parsable(s) over the exact Unicode tables. "
        "F: namespace-table facts used as preconditions hold in all shipped data files. "
        "NOT proved: termination of expand() (no measure through the regex fixpoint encoder), expr_fn/time_fn/"
        "timel_fn/dateformat_fn/fullurl_fn (declared out of reach; see assumptions), the wikidata query behind "
        "property_fn/statements_fn (their own bodies are under the totality contract, statement_query is an assumed "
        "total callee), MemoryError on huge pad counts. "
        "B (bounded stand-in, not counted as proved): see bounded_tier.")
    return rep.finish(replayer=replay, expected_min_functions=len(cs) - 2)


SITE_DRIVERS = {"expand_args", "expand_recurse", "template_parameters", "call_parser_function", "int_fn",
                "make_frame", "recurse"}


def replay(ob):
    fn = ob["fn"].split(":")[-1].split("#")[0].rsplit(".", 1)[-1]
    extra = []
    for k, v in (ob.get("model") or {}).items():
        if isinstance(v, dict) and v.get("py"):
            extra.append(v["py"])
    if "[digit-limit]" in ob["ident"]:
        extra = ["1" * 4301] + extra
    if fn in SITE_DRIVERS:
        return check.run_repo_py("bounded/c05_sites.py", {"site": fn, "witnesses": extra}, timeout=300)
    return check.run_repo_py("bounded/c05_run.py",
                             {"mode": "replay", "function": fn, "exception": ob.get("exc", ""),
                              "extra_strings": extra}, timeout=600)


if __name__ == "__main__":
    sys.exit(main(sys.argv[1] if len(sys.argv) > 1 else "quick"))
