"""check C06: Lua confinement -- Python boundary only (the Lua whitelist is not checkable here)."""
import ast
import sys

from contracts import c06
from pyvc import check, loader, vx


def boundary_obligations(rep):
    mod, fn = loader.find("luaexec:initialize_lua")
    calls = [n for n in ast.walk(fn) if isinstance(n, ast.Call) and loader.norm(n.func) == "lupa.LuaRuntime"]
    ok = False
    detail = "no LuaRuntime construction found"
    if len(calls) == 1:
        kw = {k.arg: loader.norm(k.value) for k in calls[0].keywords}
        ok = kw.get("register_eval") == "False" and kw.get("attribute_filter") == "filter_attribute_access"
        detail = str(kw)
    rep.add_obligation("luaexec:initialize_lua#pre@call#LuaRuntime(register_eval=False, attribute_filter=filter_attribute_access)",
                       "pre@call", "proved" if ok else "refuted", "syntactic", detail=detail)
    # every value handed to Lua is a module-level function or partial(module-level function, ctx | ctx.<stack>)
    bad = []
    n_values = 0
    top = set(loader.module("luaexec").top) | set(loader.module("luaexec").imports)
    for target in ("luaexec:call_set_functions", "luaexec:set_lua_env_funcs"):
        m, f = loader.find(target)
        for n in ast.walk(f):
            vals = []
            if isinstance(n, ast.Dict):
                vals = n.values
            if isinstance(n, ast.Call) and loader.norm(n.func) == "set_global_lua_variable" and len(n.args) == 3:
                vals = [n.args[2]]
            for v in vals:
                n_values += 1
                if isinstance(v, ast.Name) and (v.id in top or v.id in {a.name for a in ast.walk(f) if isinstance(a, ast.alias)}):
                    continue
                if isinstance(v, ast.Call) and loader.norm(v.func) == "partial" and len(v.args) == 2 and \
                        isinstance(v.args[0], ast.Name) and loader.norm(v.args[1]) in (
                            "ctx", "wtp", "ctx.lua_frame_stack", "wtp.lua_env_stack", "ctx.lua_env_stack"):
                    continue
                bad.append(f"{target}: {loader.norm(v)[:60]}")
    rep.add_obligation("luaexec:helpers#frame#only-module-level-functions-or-partials-over-the-context-are-handed-to-Lua",
                       "frame", "proved" if not bad and n_values else "refuted", "syntactic",
                       detail=f"{n_values} values; offending: {bad[:4]}")
    # context data handed to Lua as a global must be a deep copy converted recursively (immutable argument values):
    # a live dict/list of the context would let Lua modify the processing context
    m0, f0 = loader.find("luaexec:initialize_lua")
    data_globals = []
    for n in ast.walk(f0):
        if isinstance(n, ast.Call) and loader.norm(n.func) == "set_global_lua_variable" and len(n.args) == 3:
            data_globals.append(loader.norm(n.args[2]))
    # any other route by which initialize_lua hands context data to Lua (table_from(...) of something built from ctx)
    others = [loader.norm(n)[:80] for n in ast.walk(f0) if isinstance(n, ast.Call) and isinstance(n.func, ast.Attribute)
              and n.func.attr == "table_from" and "deepcopy" not in loader.norm(n)]
    okd = data_globals == ["lua.table_from(copy.deepcopy(ctx.NAMESPACE_DATA), recursive=True)"] and not others
    rep.add_obligation("luaexec:initialize_lua#frame#context-data-reaches-Lua-only-as-a-recursive-deep-copy", "frame",
                       "proved" if okd else "refuted", "syntactic", detail=f"{data_globals} {others}")
    # lua_loader: the opened path is LUA_DIR / prefix / path with prefix from the constant search list
    m, f = loader.find("luaexec:lua_loader")
    fp = [loader.norm(n) for n in ast.walk(f) if isinstance(n, ast.Assign) and loader.norm(n.targets[0]) == "file_path"]
    opens = [loader.norm(n) for n in ast.walk(f) if isinstance(n, ast.Call) and isinstance(n.func, ast.Attribute)
             and n.func.attr == "open"]
    ok = fp == ["file_path = LUA_DIR / prefix / path"] and opens == ["file_path.open('r', encoding='utf-8')"]
    rep.add_obligation("luaexec:lua_loader#frame#the-only-file-opened-is-LUA_DIR/prefix/path", "frame",
                       "proved" if ok else "refuted", "syntactic", detail=f"{fp} {opens}")


def main(tier):
    rep = check.Report("C06", tier, "other")
    reg = vx.Registry()
    cs = c06.contracts()
    for c in cs:
        reg.add(c)
    rep.add_static(check.run_contracts(cs, reg, 20000))
    boundary_obligations(rep)
    try:
        rep.bounded = check.run_repo_py("bounded/c06_run.py", {"tier": tier, "seed": rep.seed}, timeout=6000)
    except Exception as ex:
        rep.crashes.append(f"bounded tier: {ex}")
    rep.explanation = (
        "This check does NOT decide C06 as a whole: the Lua whitelist (_lua_reset_env, new_require, retained modules) is "
        "Lua code that no tool here verifies and that cannot even be executed offline. What is decided is the Python "
        "side of the boundary. P: filter_attribute_access returns the name iff it is a str not starting with '_' and "
        "the object is neither a functools.partial helper nor an exception object, otherwise raises AttributeError "
        "(z3, both parameter kinds). lua_loader: on every path to `file_path = LUA_DIR / prefix / path` the relative "
        "path is not absolute, has no '..' segment and ends in '.lua' (z3/cvc5 string theory over the real cleaning "
        "chain; the four re.sub calls enter by assumed contracts -- no '//' / no '..' / no leading slash / nothing "
        "added -- validated against CPython's re by enumeration in the bounded tier; because those results are "
        "over-approximated, a counter-model is a candidate that only the replay can turn into a violation). "
        "Syntactic obligations: the LuaRuntime is constructed with register_eval=False and that filter; every value "
        "handed to Lua is a module-level function or a partial of one over the context / a context stack; lua_loader "
        "opens exactly LUA_DIR / prefix / path. B: path soups against a planted outside file; filter on the real "
        "runtime; every non-network helper under pcall with hostile arguments, error objects walked through the filter.")
    rep.assumptions += ["everything on the Lua side of the sandbox", "lupa honours attribute_filter and register_eval",
                        "pathlib's '/' semantics (absolute right operand discards the left)"]
    return rep.finish(replayer=replay, expected_min_functions=len(cs))


def replay(ob):
    b = check.run_repo_py("bounded/c06_run.py", {"tier": "quick", "seed": 0}, timeout=600)
    fails = b.get("failures", [])
    if "lua_loader" in ob.get("ident", ""):
        fails = [f for f in fails if "lua_loader" in f.get("ident", "")]
    return {"reproduced": bool(fails), "witness": fails[:2], "how": "bounded/c06_run.py"}


if __name__ == "__main__":
    sys.exit(main(sys.argv[1] if len(sys.argv) > 1 else "quick"))
