"""check C09: processing a page does not depend on history (Python side only)."""
import ast
import sys

from contracts import c09
from pyvc import check, effects, loader, vx

COPY_WRAPPERS = {"dict", "list", "set", "frozenset", "tuple", "deepcopy", "copy", "sorted"}
PAGE_SOURCES = {"get_page", "get_page_resolve_redirect"}


def module_mutables(mod):
    out = {}
    for name, node in mod.top.items():
        val = getattr(node, "value", None)
        if isinstance(val, (ast.Dict, ast.List, ast.Set)) or (
                isinstance(val, ast.Call) and loader.norm(val.func) in ("dict", "list", "set", "defaultdict", "deque")):
            out[name] = node
    return out


def scan_module_state(rep):
    """no function of the package writes, or stores an alias of, a module-level mutable object"""
    tables = {}
    for m in loader.package_modules():
        for n in module_mutables(loader.module(m)):
            tables.setdefault(n, []).append(m)
    bad = []
    for m in loader.package_modules():
        mod = loader.module(m)
        visible = {n for n in tables if n in mod.top or n in mod.imports}
        for qual, fn in loader.all_functions(mod):
            for n in effects._own_nodes(fn):
                # direct mutation through the module-level name
                if isinstance(n, ast.Call) and isinstance(n.func, ast.Attribute) and isinstance(n.func.value, ast.Name) \
                        and n.func.value.id in visible and n.func.attr in effects.MUTATORS \
                        and not _shadowed(fn, n.func.value.id):
                    bad.append(f"{m}:{qual}: {loader.norm(n)[:70]}")
                if isinstance(n, ast.Subscript) and isinstance(n.ctx, (ast.Store, ast.Del)) and \
                        isinstance(n.value, ast.Name) and n.value.id in visible and not _shadowed(fn, n.value.id):
                    bad.append(f"{m}:{qual}: {loader.norm(n)[:70]} (item store)")
                # a local bound to the module-level object and then mutated: v = NAME ... v[i] = x / v.append(x)
                if isinstance(n, (ast.Assign, ast.AnnAssign)) and n.value is not None and isinstance(n.value, ast.Name) \
                        and n.value.id in visible and not _shadowed(fn, n.value.id):
                    tg = n.targets if isinstance(n, ast.Assign) else [n.target]
                    for t in tg:
                        if isinstance(t, ast.Name):
                            for n2 in effects._own_nodes(fn):
                                if isinstance(n2, ast.Subscript) and isinstance(n2.ctx, (ast.Store, ast.Del)) and \
                                        isinstance(n2.value, ast.Name) and n2.value.id == t.id:
                                    bad.append(f"{m}:{qual}: {loader.norm(n2)[:50]} through the alias {t.id} = {n.value.id}")
                                if isinstance(n2, ast.Call) and isinstance(n2.func, ast.Attribute) and \
                                        isinstance(n2.func.value, ast.Name) and n2.func.value.id == t.id and \
                                        n2.func.attr in effects.MUTATORS:
                                    bad.append(f"{m}:{qual}: {loader.norm(n2)[:50]} through the alias {t.id} = {n.value.id}")
                # alias stored into an object field or a local: X.attr = NAME / v = NAME
                if isinstance(n, (ast.Assign, ast.AnnAssign)) and n.value is not None and isinstance(n.value, ast.Name) \
                        and n.value.id in visible and not _shadowed(fn, n.value.id):
                    tg = n.targets if isinstance(n, ast.Assign) else [n.target]
                    if any(isinstance(t, ast.Attribute) for t in tg):
                        bad.append(f"{m}:{qual}: {loader.norm(n)[:70]} (alias of a module-level table stored in an object)")
    rep.add_obligation("package#frame#module-level-mutable-tables-are-never-written-or-aliased-into-objects", "frame",
                       "proved" if not bad else "refuted", "syntactic", detail="; ".join(bad)[:400] or
                       f"{len(tables)} module-level mutable objects scanned")


def scan_global_rebinding(rep):
    """process-wide state through rebinding: no function of the package declares a module-level name `global`
    (and so can rebind it), and none stores into an attribute of an imported module object"""
    bad = []
    for m in loader.package_modules():
        mod = loader.module(m)
        modnames = set()
        for node in ast.walk(mod.tree):
            if isinstance(node, ast.Import):
                for a in node.names:
                    modnames.add((a.asname or a.name).split(".")[0])
            elif isinstance(node, ast.ImportFrom):
                for a in node.names:
                    # `from . import luaexec` style: the bound name is a module of the package
                    if (node.module is None or node.level > 0 and not node.module) and a.name in loader.package_modules():
                        modnames.add(a.asname or a.name)
        for qual, fn in loader.all_functions(mod):
            for n in effects._own_nodes(fn):
                if isinstance(n, ast.Global):
                    bad.append(f"{m}:{qual}: global {', '.join(n.names)}")
                if isinstance(n, ast.Attribute) and isinstance(n.ctx, (ast.Store, ast.Del)) and isinstance(n.value, ast.Name) \
                        and n.value.id in modnames and not _shadowed(fn, n.value.id):
                    bad.append(f"{m}:{qual}: {loader.norm(n)[:60]} (store into a module object)")
    rep.add_obligation("package#frame#no-function-rebinds-a-module-level-name", "frame",
                       "proved" if not bad else "refuted", "syntactic",
                       detail="; ".join(bad)[:400] or "no `global` declaration and no store into a module object in any function")


def scan_class_state(rep):
    """state shared by all contexts of a process: no class of the package keeps a mutable container as a class
    attribute that some function mutates, and nothing is memoised except get_page (whose cache is per context
    table and invalidated by the table writers, C10)"""
    shared = {}
    for m in loader.package_modules():
        mod = loader.module(m)
        for node in ast.walk(mod.tree):
            if not isinstance(node, ast.ClassDef):
                continue
            for st in node.body:
                tgt = None
                if isinstance(st, ast.Assign) and len(st.targets) == 1 and isinstance(st.targets[0], ast.Name):
                    tgt, val = st.targets[0].id, st.value
                elif isinstance(st, ast.AnnAssign) and isinstance(st.target, ast.Name) and st.value is not None:
                    tgt, val = st.target.id, st.value
                if tgt is None or tgt == "__slots__":
                    continue
                if isinstance(val, (ast.Dict, ast.List, ast.Set, ast.DictComp, ast.ListComp, ast.SetComp)) or (
                        isinstance(val, ast.Call) and loader.norm(val.func).split(".")[-1] in
                        ("dict", "list", "set", "defaultdict", "deque", "OrderedDict", "Counter")):
                    shared[tgt] = f"{m}:{node.name}.{tgt}"
    bad = []
    for m in loader.package_modules():
        mod = loader.module(m)
        for qual, fn in loader.all_functions(mod):
            for n in effects._own_nodes(fn):
                if isinstance(n, ast.Attribute) and n.attr in shared:
                    par = getattr(n, "_parent", None)
                    gp = getattr(par, "_parent", None)
                    w = isinstance(n.ctx, (ast.Store, ast.Del)) or \
                        (isinstance(par, ast.Attribute) and par.value is n and isinstance(gp, ast.Call) and gp.func is par
                         and par.attr in effects.MUTATORS) or \
                        (isinstance(par, ast.Subscript) and par.value is n and isinstance(par.ctx, (ast.Store, ast.Del))) or \
                        (isinstance(par, ast.AugAssign) and par.target is n)
                    if w and not isinstance(n.ctx, ast.Store):
                        bad.append(f"{m}:{qual} mutates the class attribute {shared[n.attr]}: "
                                   f"{loader.norm(gp if isinstance(gp, ast.Call) else par)[:60]}")
    rep.add_obligation("package#frame#no-mutable-class-attribute-is-mutated", "frame",
                       "proved" if not bad else "refuted", "syntactic",
                       detail="; ".join(bad)[:400] or f"{len(shared)} mutable class attributes, none mutated")
    memo = []
    for m in loader.package_modules():
        md = loader.module(m)
        for qual, fn in loader.all_functions(md):
            for d in getattr(fn, "decorator_list", []):
                src = loader.norm(d)
                if "cache" in src and ("lru_cache" in src or src.endswith("cache") or "functools.cache" in src):
                    memo.append(f"{m}:{qual}")
    extra = sorted(k for k in memo if k != "core:Wtp.get_page")
    rep.add_obligation("package#frame#no-results-are-memoised-across-pages-except-get_page", "frame",
                       "proved" if not extra else "refuted", "syntactic",
                       detail=("memoised: " + ", ".join(extra))[:300] if extra else "only core:Wtp.get_page is memoised")


def _shadowed(fn, name):
    for n in effects._own_nodes(fn):
        if isinstance(n, ast.Name) and n.id == name and isinstance(n.ctx, ast.Store):
            return True
    a = fn.args
    return any(x.arg == name for x in list(a.args) + list(a.kwonlyargs) + list(a.posonlyargs))


def scan_cached_pages(rep):
    """Page objects returned by the memoised get_page are shared: no function may assign to their attributes"""
    bad = []
    for m in loader.package_modules():
        mod = loader.module(m)
        for qual, fn in loader.all_functions(mod):
            sources = set()
            for n in effects._own_nodes(fn):
                if isinstance(n, (ast.Assign, ast.AnnAssign)) and isinstance(getattr(n, "value", None), ast.Call):
                    f = n.value.func
                    nm = f.attr if isinstance(f, ast.Attribute) else (f.id if isinstance(f, ast.Name) else "")
                    if nm in PAGE_SOURCES:
                        for t in (n.targets if isinstance(n, ast.Assign) else [n.target]):
                            if isinstance(t, ast.Name):
                                sources.add(t.id)
            for n in effects._own_nodes(fn):
                if isinstance(n, ast.Attribute) and isinstance(n.ctx, ast.Store) and isinstance(n.value, ast.Name) \
                        and n.value.id in sources:
                    bad.append(f"{m}:{qual}: {loader.norm(getattr(n, '_parent', n))[:80]}")
    rep.add_obligation("package#frame#cached-Page-objects-are-never-mutated", "frame",
                       "proved" if not bad else "refuted", "syntactic", detail="; ".join(bad)[:400])


INIT_FUNCS = {"core:Wtp.__init__", "core:Wtp.create_db", "core:Wtp.init_data_folder",
              "core:Wtp.init_namespace_data", "core:Wtp.init_localization_data"}
JUSTIFIED = {
    "lua": "Lua runtime, created lazily by the first #invoke (Lua side: unverified)",
    "lua_invoke": "Lua entry point, re-fetched on every top-level invocation (Lua side: unverified)",
    "lua_reset_env": "Lua entry point, re-fetched on every top-level invocation (Lua side: unverified)",
    "lua_clear_loaddata_cache": "set once by initialize_lua; called by start_page",
    "begline_enabled": "changed only by BegLineDisableManager.__enter__/__exit__, which restore it on both exits of the with block",
    "begline_disable_counter": "changed only by BegLineDisableManager.__enter__/__exit__ (+1/-1 around a with block)",
    "wikidata_session": "network session cache; not observable in parse/expand results",
}


JUSTIFIED_WRITERS = {
    "lua": {"luaexec:initialize_lua"},
    "lua_invoke": {"luaexec:initialize_lua", "luaexec:call_lua_sandbox"},
    "lua_reset_env": {"luaexec:initialize_lua", "luaexec:call_lua_sandbox"},
    "lua_clear_loaddata_cache": {"luaexec:initialize_lua"},
    "begline_enabled": {"core:BegLineDisableManager.__enter__", "core:BegLineDisableManager.__exit__"},
    "begline_disable_counter": {"core:BegLineDisableManager.__enter__", "core:BegLineDisableManager.__exit__"},
    "wikidata_session": {"wikidata:init_wikidata_session"},
}


def scan_field_lifecycle(rep):
    """every context field that is written after construction is re-established by start_page (per page) or by
    parse_encoded (per parse), or is on the justified list above"""
    mod = loader.module("core")
    cls = mod.top["Wtp"]
    slots = []
    for n in cls.body:
        if isinstance(n, ast.Assign) and loader.norm(n.targets[0]) == "__slots__":
            slots = [e.value for e in n.value.elts]
    writers = {s_: set() for s_ in slots}
    for m in loader.package_modules():
        md = loader.module(m)
        for qual, fn in loader.all_functions(md):
            for n in effects._own_nodes(fn):
                if isinstance(n, ast.Attribute) and n.attr in writers:
                    par = getattr(n, "_parent", None)
                    gp = getattr(par, "_parent", None)
                    w = isinstance(n.ctx, (ast.Store, ast.Del)) or \
                        (isinstance(par, ast.Attribute) and par.value is n and isinstance(gp, ast.Call) and gp.func is par
                         and par.attr in effects.MUTATORS) or \
                        (isinstance(par, ast.Subscript) and par.value is n and isinstance(par.ctx, (ast.Store, ast.Del))) or \
                        (isinstance(par, ast.AugAssign) and par.target is n)
                    if w:
                        writers[n.attr].add(f"{m}:{qual}")
    bad = []
    classes = {"config": 0, "per-page": 0, "per-parse": 0, "justified": 0}
    for f, ws in writers.items():
        later = ws - INIT_FUNCS
        if not later:
            classes["config"] += 1
        elif "core:Wtp.start_page" in ws:
            classes["per-page"] += 1
        elif "parser:parse_encoded" in ws:
            classes["per-parse"] += 1
        elif f in JUSTIFIED and later <= JUSTIFIED_WRITERS.get(f, set()):
            classes["justified"] += 1
        else:
            bad.append(f"{f}: written by {sorted(later)} but re-established neither by start_page nor by parse_encoded")
    rep.add_obligation("core:Wtp#frame#every-field-written-after-construction-is-re-established-per-page-or-per-parse",
                       "frame", "proved" if slots and not bad else "refuted", "syntactic",
                       detail="; ".join(bad)[:500] or f"{len(slots)} fields: {classes}")
    for f, why in JUSTIFIED.items():
        rep.assumptions.append(f"context field `{f}` carries state across pages by design: {why}")


def main(tier):
    rep = check.Report("C09", tier, "other")
    reg = vx.Registry()
    cs = c09.contracts()
    for c in cs:
        reg.add(c)
    rep.add_static(check.run_contracts(cs, reg, 20000 if tier == "quick" else 120000))
    scan_module_state(rep)
    scan_cached_pages(rep)
    scan_class_state(rep)
    scan_global_rebinding(rep)
    scan_field_lifecycle(rep)
    try:
        rep.bounded = check.run_repo_py("bounded/c09_run.py", {"tier": tier, "seed": rep.seed}, timeout=6000)
    except Exception as ex:
        rep.crashes.append(f"bounded tier: {ex}")
    rep.explanation = (
        "P (Python side only): start_page re-establishes every per-page field (title, path, the five message lists, "
        "section/subsection, cookie table and its reverse map) and clears the Lua stacks and the strip-marker cache; "
        "parse_encoded writes every per-parse flag before the first token is processed and leaves parser_stack empty on "
        "normal and exceptional exit. Syntactic whole-package frame obligations: no function writes a module-level "
        "mutable table or stores an alias of one in an object; no function assigns to attributes of a Page obtained "
        "from the memoised get_page. NOT proved: a full reads-before-writes clause over parse/expand, and everything on "
        "the Lua side (retained modules, loadData cache): there is no verifier for Lua, and the bounded tier does not start the sandbox. "
        "B (bounded, not counted as proved): page histories vs fresh contexts.")
    rep.assumptions += ["Lua-side state is outside this check (no verifier for Lua; the sandbox can be started offline only with a stand-in for the absent ustring library -- used by C06's probe, not here)",
                        "sqlite and lru_cache contents are covered by C10's memo-coherence contracts"]
    return rep.finish(replayer=replay, expected_min_functions=len(cs))


def replay(ob):
    b = check.run_repo_py("bounded/c09_run.py", {"tier": "quick", "seed": 0}, timeout=1200)
    return {"reproduced": bool(b.get("failures")), "witness": b.get("failures", [])[:2], "how": "bounded/c09_run.py"}


if __name__ == "__main__":
    sys.exit(main(sys.argv[1] if len(sys.argv) > 1 else "quick"))
