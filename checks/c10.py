"""check C10: page store returns the latest version of every page (partial proof + bounded sequences)."""
import sys

from contracts import c10
from pyvc import check, effects, vx


def main(tier):
    rep = check.Report("C10", tier, "other")
    reg = vx.Registry()
    cs = c10.contracts()
    for c in cs:
        reg.add(c)
    c10.setup_registry(reg)
    rep.add_static(check.run_contracts(cs, reg, 20000 if tier == "quick" else 120000))
    # whole-package frame obligation: the pages table is written only by functions under the memo contract
    infos = effects.analyze({"db_conn"})
    import ast
    from pyvc import loader
    writers = []
    for k, fi in infos.items():
        for n in effects._own_nodes(fi.node):
            if isinstance(n, ast.Call) and isinstance(n.func, ast.Attribute) and \
                    n.func.attr in ("execute", "executescript", "executemany") and \
                    loader.norm(n.func.value).endswith("db_conn") and n.args:
                txt = None
                a0 = n.args[0]
                if isinstance(a0, ast.Constant) and isinstance(a0.value, str):
                    txt = a0.value
                elif isinstance(a0, ast.Name):
                    # local assigned a constant string
                    for m in effects._own_nodes(fi.node):
                        if isinstance(m, ast.Assign) and any(isinstance(t, ast.Name) and t.id == a0.id for t in m.targets) \
                                and isinstance(m.value, ast.Constant) and isinstance(m.value.value, str):
                            txt = (txt or "") + " " + m.value.value
                w = (txt or "").upper()
                if "PAGES" in w and any(x in w for x in ("INSERT", "UPDATE", "DELETE", "REPLACE INTO")) and \
                        "CREATE TABLE" not in w:
                    writers.append(k)
    under = {c.target for c in cs}
    for k in sorted(set(writers)):
        rep.add_obligation(f"{k}#frame#writer-of-pages-table-is-under-the-memo-contract", "frame",
                           "proved" if k in under else "refuted", "syntactic", fn=k)
    # memoisation is modelled by a ghost flag for get_page only: any other memoised function would be an
    # unmodelled cache that the table writers do not invalidate
    memo = []
    for m in loader.package_modules():
        md = loader.module(m)
        for qual, fn in loader.all_functions(md):
            for d in getattr(fn, "decorator_list", []):
                src = loader.norm(d)
                if "cache" in src and ("lru_cache" in src or src.endswith("cache") or "functools.cache" in src):
                    memo.append(f"{m}:{qual}")
    rep.add_obligation("package#frame#get_page-is-the-only-memoised-function", "frame",
                       "proved" if memo == ["core:Wtp.get_page"] else "refuted", "syntactic", detail=str(memo))
    try:
        rep.bounded = check.run_repo_py("bounded/c10_run.py", {"tier": tier, "seed": rep.seed}, timeout=6000)
    except Exception as ex:
        rep.crashes.append(f"bounded tier: {ex}")
    rep.explanation = (
        "P: memo coherence -- ghost flag for the functools.lru_cache on get_page: every function that writes the pages "
        "table (add_page, set_template_pre_expand, analyze_templates incl. its loops) re-establishes coherence before "
        "it returns and before any get_page call (pre@call obligations), so a lookup is never answered from a stale "
        "memo; add_page issues exactly one upsert whose parameters are (norm_add(title, ns), ns, body | includable "
        "part, redirect_to, need_pre_expand, model or 'wikitext'); get_page issues no write, never looks up the empty "
        "title, and in the main namespace queries exactly norm_get_main(title) with the namespace id; page_exists and "
        "get_page_resolve_redirect are built from get_page only; close_db_conn commits before closing. "
        "Spelling lemmas (one call each): a plain name (no colon) is stored by add_page under local-prefix:name; "
        "get_page on the plain name queries local-prefix:name-with-blanks-for-underscores, and get_page on a title "
        "that already carries the local prefix queries that title with blanks for underscores -- so prefix given or "
        "omitted and underscores versus blanks reach the stored key. "
        "NOT proved: aliased / other-case prefixes (depend on the contents of namespace_prefixes) and SQLite's "
        "own semantics (upsert, UNION ALL ... LIMIT 1, durability). "
        "B (bounded, not counted as proved): operation sequences on a real SQLite file against the abstract map.")
    rep.assumptions += ["sqlite3 executes the statement text with the parameters as documented (external contract)",
                        "check_template_func (user classifier) does not write the pages table",
                        "namespace_prefixes(ns) returns strings ending with ':' (finite check over shipped data in the bounded tier)"]
    return rep.finish(replayer=replay, expected_min_functions=len(cs))


def replay(ob):
    b = check.run_repo_py("bounded/c10_run.py", {"tier": "quick", "seed": 0}, timeout=1200)
    return {"reproduced": bool(b.get("failures")), "witness": b.get("failures", [])[:2],
            "how": "bounded/c10_run.py: operation sequences on a real SQLite file"}


if __name__ == "__main__":
    sys.exit(main(sys.argv[1] if len(sys.argv) > 1 else "quick"))
