"""check C12: dump ingestion stores exactly the selected pages (partial)."""
import sys

from contracts import c10, c12
from pyvc import check, vx


def main(tier):
    rep = check.Report("C12", tier, "other")
    reg = vx.Registry()
    cs = c12.contracts()
    # add_page's stored-row contracts are shared with C10 (same obligations, same source)
    shared = [c for c in c10.contracts() if c.target == "core:Wtp.add_page"]
    for c in shared:
        c.prop = "C12"
    for c in cs + shared:
        reg.add(c)
    c10.setup_registry(reg)
    c12.setup_registry(reg)
    rep.add_static(check.run_contracts(cs + shared, reg, 20000 if tier == "quick" else 120000))
    try:
        rep.bounded = check.run_repo_py("bounded/c12_run.py", {"tier": tier, "seed": rep.seed}, timeout=6000)
    except Exception as ex:
        rep.crashes.append(f"bounded tier: {ex}")
    rep.explanation = (
        "P: for every iteration of parse_dump_xml's page loop (frame mode, lxml getters as assumed callbacks, ghost call "
        "log): add_page is called exactly once iff the namespace is selected, the title does not end in /documentation, "
        "does not contain /testcases, and the page is a redirect or has a wikitext/Scribunto/json model; the call "
        "carries the page's own title, namespace id and model, the revision text verbatim (no redirect) or no body and "
        "the redirect target (redirect). add_page (shared with C10): exactly one upsert keyed by norm_add(title, ns) "
        "with the body verbatim outside the template namespace, and for a template page the body stored is the "
        "result of the one _template_to_body call made on the body given. _template_to_body: on every path the five "
        "removals run in the documented order, each on the result of the previous one, the <onlyinclude> scan reads "
        "the text after the fourth, and the value returned is the result of the last removal (no early exit or "
        "skipped step; pattern texts pinned as drift clauses). add_default_templates: each of the four helper "
        "templates is added only after page_exists was asked for exactly that title and namespace; the store is "
        "committed. B (bounded, not counted as proved): generated .xml.bz2 dumps through the real bz2+lxml path.")
    rep.assumptions += ["lxml findtext/find/get return the element text / element / attribute as documented (external)",
                        "what each of the six regular expressions of _template_to_body matches is CPython's re (external); "
                        "their texts are pinned, their joint effect on MediaWiki-style bodies is checked in the bounded "
                        "tiers of C04/C12"]
    return rep.finish(replayer=replay, expected_min_functions=len(cs) + len(shared))


def replay(ob):
    b = check.run_repo_py("bounded/c12_run.py", {"tier": "quick", "seed": 0}, timeout=1200)
    known = check.load_known()
    fresh = [f for f in b.get("failures", []) if not check.is_known("C12", f["ident"], f.get("witness_class", ""), known)]
    return {"reproduced": bool(fresh), "witness": fresh[:2], "how": "bounded/c12_run.py"}


if __name__ == "__main__":
    sys.exit(main(sys.argv[1] if len(sys.argv) > 1 else "quick"))
