"""check C13: selective expansion and hooks (partial)."""
import sys

from contracts import c13
from pyvc import check, vx


def main(tier):
    rep = check.Report("C13", tier, "other")
    reg = vx.Registry()
    cs = c13.contracts()
    for c in cs:
        reg.add(c)
    c13.setup_registry(reg)
    rep.add_static(check.run_contracts(cs, reg, 20000 if tier == "quick" else 120000))
    # the selection switches of one expand() call are fixed: expand_recurse never rebinds its own parameters
    # (a rebinding would carry one template's mode over to the calls that follow it)
    import ast
    from pyvc import loader
    mod = loader.module("core")
    fn = None
    for q, f in loader.all_functions(mod):
        if q == "Wtp.expand.expand_recurse":
            fn = f
    rebinds = []
    if fn is not None:
        params = {a.arg for a in fn.args.args}
        stack = list(fn.body)
        while stack:
            n = stack.pop()
            if isinstance(n, (ast.FunctionDef, ast.Lambda)):
                continue            # nested functions have their own parameters
            if isinstance(n, ast.Name) and isinstance(n.ctx, (ast.Store, ast.Del)) and n.id in params:
                rebinds.append(f"{n.id} (line {n.lineno})")
            stack.extend(ast.iter_child_nodes(n))
    rep.add_obligation("core:Wtp.expand.expand_recurse#frame#parameters-are-never-rebound", "frame",
                       "proved" if fn is not None and not rebinds else "refuted", "syntactic", fn="core:Wtp.expand.expand_recurse",
                       detail=", ".join(rebinds)[:200])
    try:
        rep.bounded = check.run_repo_py("bounded/c13_run.py", {"tier": tier, "seed": rep.seed}, timeout=6000)
    except Exception as ex:
        rep.crashes.append(f"bounded tier: {ex}")
    rep.explanation = (
        "P: check_template_need_expand equals the statement's selection rule (exists and (named in "
        "templates_to_expand or flagged) and not named in templates_to_not_expand) for the four None/set "
        "combinations, with symbolic sets; expand_parserfn: with expand_parserfns=False the call is re-emitted "
        "exactly and neither call_parser_function nor invoke_fn runs; with expand_invoke=False #invoke (also through "
        "an alias) is re-emitted exactly, invoke_fn never runs and everything else is dispatched exactly once; the "
        "four re-emission formatters equal their format specs; in expand_recurse's template branch template_fn is "
        "called exactly once per expanded call iff supplied, with the argument map object that was just built, and "
        "post_template_fn at most once, after it, and a non-None result of the post hook is the expansion (ghost call "
        "log, frame mode, every path); expand_recurse never rebinds its parameters (parent frame, expand_all). "
        "B (bounded, not counted as proved): expand against a reference selective expander, hook call multisets.")
    rep.assumptions += ["get_page's callee contract (C10)", "user hooks return Optional[str]",
                        "envelope of the bounded reference: no template call left unexpanded inside the first "
                        "argument of an enabled parser function; no disabled parser function inside a call argument "
                        "(both are probed separately and listed as known findings)"]
    return rep.finish(replayer=replay, expected_min_functions=len(cs))


def replay(ob):
    b = check.run_repo_py("bounded/c13_run.py", {"tier": "quick", "seed": 0}, timeout=1200)
    known = check.load_known()
    fresh = [f for f in b.get("failures", [])
             if not check.is_known("C13", f["ident"], f.get("witness_class", ""), known)]
    return {"reproduced": bool(fresh), "witness": fresh[:2],
            "how": "bounded/c13_run.py: real Wtp.expand against the reference selective expander"}


if __name__ == "__main__":
    sys.exit(main(sys.argv[1] if len(sys.argv) > 1 else "quick"))
