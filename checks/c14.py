"""check C14: the three views of a template call's arguments agree (partial)."""
import sys

import z3

from pyvc import check, smt, vx
from contracts import c14


def main(tier):
    rep = check.Report("C14", tier, "other")
    reg = vx.Registry()
    cs = c14.contracts() + c14.lua_contracts() + c14.begline_contracts()
    for c in cs:
        reg.add(c)
    c14.setup_registry(reg)
    rep.add_static(check.run_contracts(cs, reg, 20000 if tier == "quick" else 120000))
    # lemma: the numeric-name guard used by all three views (isdecimal and int(k) > 0) is safe and yields an int
    s = z3.String("s")
    v = smt.discharge([z3.InRe(s, z3.Plus(smt.RE("decimal")))], z3.InRe(s, smt.RE_INT_OK()), 20000)
    rep.add_obligation("c14:lemma#isdecimal(k) => int(k) parses (shared by the three views)", "lemma", v.status,
                       v.backend, secs=v.secs)
    try:
        rep.bounded = check.run_repo_py("bounded/c14_run.py", {"tier": tier, "seed": rep.seed}, timeout=6000)
        rep.assumed_validation.append({"what": "argument-name regex contracts (expander, make_frame)",
                                       "bound": rep.bounded.get("bound", "")})
    except Exception as ex:
        rep.crashes.append(f"bounded tier: {ex}")
    rep.explanation = (
        "P: per-argument obligations in the expander's argument loop (frame mode, every path): the key of a named "
        "argument is an int exactly on the isdecimal-and-positive branch, a positional argument gets the running "
        "counter which is incremented only on the positional branch, and the value stored is the (trimmed, for named) "
        "expansion of that argument; the numeric-name guard shared by the three views is safe (z3, exact Unicode "
        "tables). BegLineDisableManager keeps the invariant begline_enabled == (begline_disable_counter == 0) across "
        "__enter__/__exit__ (value mode), so markup at the start of a line inside an argument stays text until the "
        "outermost argument walk is left. The argument-name regular expressions are assumed contracts validated by "
        "exhaustive enumeration. "
        "NOT proved: TemplateNode.template_parameters (its input is the parse tree) and make_frame's loop as a whole; "
        "the Lua-side trim. B (bounded, not counted as proved): the three views on enumerated argument lists.")
    rep.assumptions += ["regex contracts of the two argument-name patterns (validated by enumeration to the stated length)",
                        "Lua view captured with a stub lua_invoke on a bare LuaRuntime; the Lua-side trim of flagged "
                        "values (_sandbox_phase2.lua) is applied by the harness"]
    return rep.finish(replayer=replay, expected_min_functions=len(cs))


def replay(ob):
    b = check.run_repo_py("bounded/c14_run.py", {"tier": "quick", "seed": 0}, timeout=1200)
    known = check.load_known()
    fresh = [f for f in b.get("failures", []) if not check.is_known("C14", f["ident"], f.get("witness_class", ""), known)]
    return {"reproduced": bool(fresh), "witness": fresh[:2], "how": "bounded/c14_run.py"}


if __name__ == "__main__":
    sys.exit(main(sys.argv[1] if len(sys.argv) > 1 else "quick"))
