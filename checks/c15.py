"""check C15: nowiki content and comments are inert and recoverable (partial)."""
import ast
import html
import sys

from contracts import c15
from pyvc import check, loader, vx

PREPROCESS_ORDER = [
    "text = re.sub('(?si)<nowiki\\\\s*>(.*?)</nowiki\\\\s*>', _nowiki_sub_fn, text)",
    "text = re.sub('(?si)<nowiki\\\\s*/>', MAGIC_NOWIKI_CHAR, text)",
    "text = re.sub('(?s)\\\\n?<!--.*?-->', '', text)",
]


def table_obligations(rep):
    mod = loader.module("common")
    node = mod.top["_nowiki_map"]
    try:
        table = ast.literal_eval(node.value)
    except Exception as ex:
        rep.add_obligation("common:_nowiki_map#finite#is-a-literal-table", "finite", "refuted", "enumeration", detail=str(ex))
        return
    bad = []
    for k, v in table.items():
        if len(k) != 1:
            bad.append(f"key {k!r} is not one character")
        if html.unescape(v) != k:
            bad.append(f"{v!r} does not decode to {k!r}")
        inner = [c for c in v if c in table and not (c == "#" and v.startswith("&#"))]
        if inner:
            bad.append(f"value {v!r} contains key characters {inner}")
        if v[:1] in "*#:;= \t\n":
            bad.append(f"value {v!r} begins with a line-start marker")
    rep.add_obligation("common:_nowiki_map#finite#each-entry-decodes-to-its-key-and-contains-no-key-character",
                       "finite", "proved" if not bad else "refuted", "enumeration", detail="; ".join(bad)[:300])
    # the regex is the alternation of exactly the keys => every match is a key => _nowiki_map[m.group(0)] cannot raise
    rx = mod.top["_nowiki_re"]
    want = "re.compile('|'.join((re.escape(x) for x in _nowiki_map.keys())))"
    got = loader.norm(rx.value)
    rep.add_obligation("common:_nowiki_re#finite#alternation-of-exactly-the-keys", "finite",
                       "proved" if got == want else "refuted", "syntactic", detail=got[:200])
    m2, fn = loader.find("common:nowiki_quote")
    body = [loader.norm(s) for s in loader.strip_docstring(fn.body)]
    ok = len(body) == 2 and body[1] == "return re.sub(_nowiki_re, _nowiki_repl, text)" and \
        "return _nowiki_map[m.group(0)]" in body[0]
    rep.add_obligation("common:nowiki_quote#finite#character-wise-image-under-the-table", "finite",
                       "proved" if ok else "refuted", "syntactic",
                       detail="re.sub over single-character alternation with the table lookup as replacement")
    # order of the three substitutions in preprocess_text (nowiki pairs are saved before anything else is touched)
    m3, pp = loader.find("core:Wtp.preprocess_text")
    subs = [loader.norm(s) for s in pp.body if isinstance(s, ast.Assign) and "re.sub" in loader.norm(s)]
    status = "proved" if subs == PREPROCESS_ORDER else "drift"
    rep.add_obligation("core:Wtp.preprocess_text#drift#nowiki-pairs-then-self-closing-then-comments", "drift",
                       "proved" if status == "proved" else "refuted", "syntactic", detail=str(subs)[:300])


def main(tier):
    rep = check.Report("C15", tier, "other")
    reg = vx.Registry()
    cs = c15.contracts()
    # the manager that keeps line-start markup inert while the parser walks the arguments of a call (shared with C14):
    # a nowiki at the start of a later line of an argument must stay text of that argument
    from contracts import c14
    for bc in c14.begline_contracts():
        bc.prop = "C15"
        cs.append(bc)
    for c in cs:
        reg.add(c)
    c15.setup_registry(reg)
    rep.add_static(check.run_contracts(cs, reg, 20000 if tier == "quick" else 120000))
    table_obligations(rep)
    try:
        rep.bounded = check.run_repo_py("bounded/c15_run.py", {"tier": tier, "seed": rep.seed}, timeout=6000)
    except Exception as ex:
        rep.crashes.append(f"bounded tier: {ex}")
    rep.explanation = (
        "F: every entry of _nowiki_map maps one character to an entity that html.unescape decodes back to it, no value "
        "contains a key character (other than the '#' of a numeric entity) or starts with a line-start marker, and "
        "_nowiki_re is the alternation of exactly the keys (so nowiki_quote is the character-wise image under the "
        "table and its table lookup cannot fail). P (frame mode, taint tags on the cookie's argument tuple, ghost "
        "call log, every path and loop iteration): in expand_recurse, expand_args, _finalize_expand.magic_repl and "
        "parser.magic_fn, whenever the cookie kind is 'N' no value derived from its arguments reaches expand_recurse, "
        "expand_args, _encode, process_text, preprocess_text or expand; magic_repl and magic_fn quote it at most/exactly "
        "once. The order of the three substitutions in preprocess_text is a drift check (regex semantics are external). "
        "B (bounded, not counted as proved): contents over the token alphabet in five contexts; comment documents.")
    rep.assumptions += ["regex semantics of preprocess_text's three substitutions (external; keyed by text, drift => undecided)",
                        "user hooks do not re-inject cookie arguments"]
    return rep.finish(replayer=replay, expected_min_functions=len(cs))


def replay(ob):
    b = check.run_repo_py("bounded/c15_run.py", {"tier": "quick", "seed": 0}, timeout=1200)
    return {"reproduced": bool(b.get("failures")), "witness": b.get("failures", [])[:2], "how": "bounded/c15_run.py"}


if __name__ == "__main__":
    sys.exit(main(sys.argv[1] if len(sys.argv) > 1 else "quick"))
