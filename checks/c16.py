"""check C16: expansion path balanced, message lists well-formed."""
import os
import sys

from pyvc import check, effects, loader, vx
from contracts import c16


def main(tier):
    rep = check.Report("C16", tier, "proof")
    reg = vx.Registry()
    cs = c16.contracts()
    for c in cs:
        reg.add(c)
    infos, writers, eff = c16.setup_registry(reg)
    tmo = 20000 if tier == "quick" else 120000
    results = check.run_contracts(cs, reg, tmo)
    rep.add_static(results)
    under = {c.target for c in cs}
    # whole-package frame obligations (syntactic, from the real source)
    for k in sorted(writers):
        ok = k in under
        rep.add_obligation(f"{k}#frame#writer-of-expand_stack-is-under-contract", "frame",
                           "proved" if ok else "refuted", "syntactic", fn=k,
                           detail="" if ok else f"writes {infos[k].writes} but has no contract")
    ncomp = 0
    for k in sorted(eff - writers):
        g = effects.guarded_effectful_calls(infos[k], infos, eff)
        if g and k not in under:
            rep.add_obligation(f"{k}#frame#no-handler-swallows-a-path-extending-exception", "frame",
                               "refuted", "syntactic", fn=k, detail=f"handler encloses {g[:3]}")
        else:
            ncomp += 1
            rep.add_obligation(f"{k}#frame#balance-by-composition", "frame", "proved", "syntactic", fn=k)
    # message lists: written only by recorders, start_page, __init__
    linfos = effects.analyze({"errors", "warnings", "debugs", "notes", "wiki_notices"})
    allowed = {"core:Wtp.error", "core:Wtp.warning", "core:Wtp.debug", "core:Wtp.note",
               "core:Wtp.wiki_notice", "core:Wtp.start_page", "core:Wtp.__init__"}
    for k, fi in sorted(linfos.items()):
        w = {a: [s for s in sites if not s.startswith("alias")] for a, sites in fi.writes.items()}
        w = {a: s for a, s in w.items() if s}
        # wikidata.py has its own unrelated 'notes'? only attribute writes count
        if w and k not in allowed:
            rep.add_obligation(f"{k}#frame#message-lists-written-only-by-recorders", "frame", "refuted",
                               "syntactic", fn=k, detail=str(w)[:200])
    rep.add_obligation("package#frame#message-list-writers", "frame", "proved", "syntactic",
                       detail=f"writers: {sorted(k for k, f in linfos.items() if any(not s.startswith('alias') for ss in f.writes.values() for s in ss))}")
    refl = effects.reflection_sites()
    rep.add_obligation("package#frame#no-reflection", "frame", "proved" if not refl else "refuted", "syntactic",
                       detail=str(refl)[:300])
    rep.add_obligation("core:BegLineDisableManager.__exit__#frame#does-not-swallow", "frame",
                       "proved" if effects.begline_manager_ok() else "refuted", "syntactic")
    # detect_expand_template_loop receives the path: must not mutate its parameter
    mod, fn = loader.find("core:detect_expand_template_loop")
    import ast
    p0 = fn.args.args[0].arg
    bad = [loader.norm(n) for n in ast.walk(fn)
           if (isinstance(n, ast.Attribute) and isinstance(n.value, ast.Name) and n.value.id == p0
               and n.attr in effects.MUTATORS)
           or (isinstance(n, ast.Subscript) and isinstance(n.ctx, (ast.Store, ast.Del))
               and isinstance(n.value, ast.Name) and n.value.id == p0)
           or (isinstance(n, ast.Call) and any(isinstance(a, ast.Name) and a.id == p0 for a in n.args)
               and not (isinstance(n.func, ast.Name) and n.func.id in effects.READERS))]
    rep.add_obligation("core:detect_expand_template_loop#frame#parameter-not-mutated", "frame",
                       "proved" if not bad else "refuted", "syntactic", detail=str(bad)[:200])
    # bounded stand-in
    try:
        b = check.run_repo_py("bounded/c16_run.py", {"tier": tier, "seed": rep.seed}, timeout=3000)
        rep.bounded = b
    except Exception as ex:
        rep.crashes.append(f"bounded tier: {ex}")
    rep.explanation = (
        "P: balance contract (normal exit: path == entry path; exceptional exit: entry path is a prefix) "
        "discharged by z3 on every path of every function that writes Wtp.expand_stack (frame mode over the real "
        "FunctionDef nodes, callees by contract), loop invariants for expand_recurse/expand_args (path unchanged "
        "per iteration, hence the depth test sees the same depth on every iteration) and for call_lua_sandbox's "
        "finally-loop; message recorders proved to append exactly one record with the documented keys and "
        "path == tuple(expand_stack); start_page/__init__ reset contracts. "
        f"Syntactic whole-package frame obligations: {len(writers)} writers under contract, {ncomp} effectful "
        "non-writers balanced by composition (no handler swallows an exception from an effectful callee). "
        "B (bounded, not counted as proved): run-time monitors of the same contracts, see bounded_tier.")
    rep.assumptions += [
        "user callbacks (template_fn, post_template_fn, template_override_funcs[..]) and ctx.lua_invoke leave the "
        "expansion path as found on normal return and only extend it when raising",
        "context managers other than BegLineDisableManager and file objects do not occur around effectful calls",
    ]
    return rep.finish(replayer=replay, expected_min_functions=len(cs))


def replay(ob):
    """replay = the run-time reading of the same contract on the real code"""
    b = check.run_repo_py("bounded/c16_run.py", {"tier": "quick", "seed": 0, "pages": 60}, timeout=1200)
    fn = ob["fn"].split(":")[-1].split("#")[0]
    leaf = fn.rsplit(".", 1)[-1]
    hits = [f for f in b.get("failures", []) if leaf in f["ident"]]
    anyhit = b.get("failures", [])
    return {"reproduced": bool(hits or anyhit), "witness": (hits or anyhit)[:2],
            "how": "PYTHONPATH=/repo/src:/verif /venv/bin/python bounded/c16_run.py  (stdin: {\"tier\":\"quick\"})"}


if __name__ == "__main__":
    sys.exit(main(sys.argv[1] if len(sys.argv) > 1 else "quick"))
