"""check C17: template analysis marks exactly the least closed set."""
import sys

from contracts import c12, c17
from pyvc import check, vx


def main(tier):
    rep = check.Report("C17", tier, "proof")
    reg = vx.Registry()
    cs = c17.contracts()
    for c in cs:
        reg.add(c)
    c17.setup_registry(reg)
    rep.add_static(check.run_contracts(cs, reg, 30000 if tier == "quick" else 180000))
    # the dump pipeline re-adds its built-in helper templates only where the wiki has none (a re-added page loses its
    # mark and its redirect): the C12 contract of add_default_templates, checked here as well
    reg2 = vx.Registry()
    c12.pipeline_registry(reg2)
    adt = [c for c in c12.contracts() if c.target == "dumpparser:add_default_templates"]
    # ... and runs the analysis after override files that contain templates have been written, at most once, with
    # the caller's classifier (analyze_and_overwrite_pages)
    adt.append(c12.analysis_pipeline_contract())
    for c in adt:
        c.prop = "C17"
        reg2.add(c)
    rep.add_static(check.run_contracts(adt, reg2, 30000 if tier == "quick" else 180000))
    try:
        rep.bounded = check.run_repo_py("bounded/c17_run.py", {"tier": tier, "seed": rep.seed}, timeout=6000)
    except Exception as ex:
        rep.crashes.append(f"bounded tier: {ex}")
    rep.explanation = (
        "P: the real body of Wtp.analyze_templates is executed symbolically over the abstract page map (sets of "
        "titles and the inclusion relation as z3 arrays over uninterpreted sorts; pyvc/absmodels.py); the four loops "
        "are cut at the sidecar invariants (relation built == classifier's uses; flagged => marked; worklist subset "
        "of marked; every marked page off the worklist has all its includers marked; marked subset of an arbitrary "
        "closed superset S), inv-init/inv-keep discharged by z3, and at the statement after the worklist loop the "
        "marked set is asserted to be the least set containing the flagged templates and closed under 'includes a "
        "marked one' (soundness, completeness, minimality). The memo-coherence precondition of each lookup inside "
        "the loop is an obligation (C10 ghost flag): without a fresh lookup the invariant cannot be re-established. "
        "Termination of the worklist loop is an obligation too: the variant 2*|unmarked templates| + |worklist| is "
        "non-negative and strictly decreases in every iteration (the inner loop carries `measure < variant_at_head`); "
        "|unmarked templates| is an uninterpreted function of the marked set with the cardinality axioms of a finite "
        "table instantiated at each set_template_pre_expand. The two `for` loops iterate finite collections "
        "(assumed). Dump pipeline around it (ghost call log): add_default_templates re-adds a built-in helper template only "
        "after an existence check on (title, template namespace id); analyze_and_overwrite_pages writes override files that "
        "contain templates before it analyses, analyses at most once and with the caller's classifier, and skips the "
        "analysis only when the table has been analysed and no template was overridden. "
        "The two redirect UPDATE statements are NOT proved (SQL is external): bounded tier only. "
        "B: real analyze_templates on real SQLite, see bounded_tier.")
    rep.assumptions += [
        "abstract (SQL-level) contracts: get_all_pages([template ns]) yields every template page once; "
        "set_template_pre_expand(t) sets the flag of the page titled t; get_page(stored title, template ns) returns "
        "that page with its current flag when the memo is coherent (validated by the bounded tier on real SQLite)",
        "check_template_func is a function of the page (uses, flag) and does not write the table",
        "inclusion is matched by exact string between the used name and the stored title minus the local prefix",
        "the pages table is finite: CARD_UNMARKED(M) >= 0, and marking an unmarked template page decreases it by one "
        "(axioms instantiated at set_template_pre_expand); get_all_pages and the classifier's name sets are finite",
    ]
    return rep.finish(replayer=replay, expected_min_functions=3)


def replay(ob):
    b = check.run_repo_py("bounded/c17_run.py", {"tier": "quick", "seed": 0}, timeout=1200)
    return {"reproduced": bool(b.get("failures")), "witness": b.get("failures", [])[:2],
            "how": "bounded/c17_run.py: real analyze_templates on a real SQLite store vs the least fixpoint"}


if __name__ == "__main__":
    sys.exit(main(sys.argv[1] if len(sys.argv) > 1 else "quick"))
