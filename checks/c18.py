"""check C18: parser functions compute their documented values (partial)."""
import sys

from contracts import c18
from pyvc import check, vx


def main(tier):
    rep = check.Report("C18", tier, "other")
    reg = vx.Registry()
    cs = c18.contracts()
    for c in cs:
        reg.add(c)
    c18.setup_registry(reg)
    rep.add_static(check.run_contracts(cs, reg, 30000 if tier == "quick" else 120000))
    try:
        rep.bounded = check.run_repo_py("bounded/c18_run.py", {"tier": tier, "seed": rep.seed}, timeout=6000)
    except Exception as ex:
        rep.crashes.append(f"bounded tier: {ex}")
    rep.explanation = (
        "P: #sub (PHP mb_substr), #pos, #rpos (two-parameter form), #len, #replace, lc, uc, lcfirst, ucfirst equal "
        "their reference definitions in specs/strfuncs.py for argument lists of any length and every total expander "
        "(z3 string theory; strip/lower/upper shared uninterpreted functions); padleft/padright: result length == "
        "max(len(value), count) for a non-empty pad, the value is a suffix/prefix, unchanged when already wide "
        "enough; plural returns the singular form iff #expr's value is '1'; urlencode/#urldecode call the stated "
        "stdlib function with the stated safe set per mode. Envelope: numerals within CPython's 4300-digit limit. "
        "B (bounded, not counted as proved): #expr against a reference evaluator (precedence, associativity, "
        "parenthesisation, spacing, case), #explode, #titleparts, exact pad contents, formatnum/R round trip over "
        "all shipped locales.")
    rep.assumptions += ["expr_fn is a total function of its expanded, trimmed, lower-cased first argument "
                        "(its value is checked only by the bounded differential)",
                        "#rpos: a third parameter is outside the documented function and outside the envelope"]
    return rep.finish(replayer=replay, expected_min_functions=len(cs))


def replay(ob):
    b = check.run_repo_py("bounded/c18_run.py", {"tier": "quick", "seed": 0}, timeout=1200)
    fn = ob["fn"].split(":")[-1].split("#")[0]
    hits = [f for f in b.get("failures", []) if fn in f["ident"]]
    return {"reproduced": bool(hits), "witness": hits[:2],
            "how": "bounded/c18_run.py: real call_parser_function against executable reference definitions"}


if __name__ == "__main__":
    sys.exit(main(sys.argv[1] if len(sys.argv) > 1 else "quick"))
