"""Cross-check of pyvc's builtin models against CPython on all small concrete inputs (DESIGN §7.2): each modelled
operation is evaluated through the real model code on constant arguments (z3 simplification) and compared with the
result of the same operation in the interpreter that runs the repo.  Any disagreement is a checker failure (exit 3)."""
import ast
import itertools
import json
import subprocess
import sys

import z3

from pyvc import models, models_str, smt, vx
from pyvc.vx import V, vint, vstr

STRS = ["", "a", "ab", "ba", "aab", "a b", " a ", "A:b", "Main:x", "a_b", "ab/cd", "²", "12", "-3", " 7 ", "x\n"]
INTS = [-4, -1, 0, 1, 2, 5]


class FakeContract(vx.Contract):
    pass


def make_x():
    c = vx.Contract(target="parserfns:len_fn", mode="value")
    reg = vx.Registry()
    reg.add(c)
    reg.bind()
    return vx.X(c, reg)


def concrete(v):
    if v.k == "raise":
        return ("raise", v.t[0])
    t = z3.simplify(v.t) if v.k in ("str", "int", "bool") else None
    if v.k == "str" and z3.is_string_value(t):
        return smt._z3str_to_py(t)
    if v.k == "int" and z3.is_int_value(t):
        return t.as_long()
    if v.k == "bool" and (z3.is_true(t) or z3.is_false(t)):
        return z3.is_true(t)
    return ("symbolic", str(t)[:60])


def eval_expr(x, src, env):
    st = vx.St()
    sid = next(x.scope_ids)
    st.scopes[sid] = {k: (vstr(v) if isinstance(v, str) else vint(v)) for k, v in env.items()}
    e = ast.parse(src, mode="eval").body
    outs = x.ev(e, st, (sid,))
    vals = []
    for s2, v in outs:
        # keep only feasible outcomes
        sol = z3.Solver()
        for c in s2.pc:
            sol.add(c)
        if sol.check() == z3.unsat:
            continue
        cv = concrete(v)
        if isinstance(cv, tuple) and cv[0] == "symbolic" and v.k in ("str", "int", "bool"):
            # a fresh value pinned down by its constraints: take the model value if it is the only one
            try:
                mv = sol.model().eval(v.t, model_completion=True)
                sol.add(v.t != mv)
                if sol.check() == z3.unsat:
                    cv = concrete(V(v.k, mv))
            except z3.Z3Exception:
                pass
        vals.append(cv)
    return vals


CASES = [
    ("s[i:j]", ("s", "i", "j")), ("s[i:]", ("s", "i")), ("s[:j]", ("s", "j")), ("s.find(t)", ("s", "t")),
    ("s.find(t, i)", ("s", "t", "i")), ("s.rfind(t)", ("s", "t")), ("s.startswith(t)", ("s", "t")),
    ("s.endswith(t)", ("s", "t")), ("s.removeprefix(t)", ("s", "t")), ("s.removesuffix(t)", ("s", "t")),
    ("t in s", ("s", "t")), ("s + t", ("s", "t")), ("len(s)", ("s",)), ("s == t", ("s", "t")),
    ("s.isdecimal()", ("s",)), ("s.isdigit()", ("s",)), ("s.isspace()", ("s",)), ("max(i, j)", ("i", "j")),
    ("min(i, j)", ("i", "j")), ("i // j", ("i", "j")), ("i % j", ("i", "j")), ("s[i]", ("s", "i")),
    ("s * i", ("s", "i")), ("not s", ("s",)), ("s or t", ("s", "t")), ("s and t", ("s", "t")),
    ("s.startswith(('a', 'M'))", ("s",)), ("i if s else j", ("s", "i", "j")),
    ("s.partition(t)[0]", ("s", "t")), ("s.partition(t)[2]", ("s", "t")), ("s.rpartition(t)[0]", ("s", "t")),
    ("s.rpartition(t)[2]", ("s", "t")), ("s.partition(t)[1]", ("s", "t")),
]


def main():
    x = make_x()
    jobs = []
    for src, names in CASES:
        doms = [STRS[:9] if n in ("s", "t") else INTS for n in names]
        for combo in itertools.product(*doms):
            jobs.append((src, dict(zip(names, combo))))
    # reference results from the interpreter that runs the repo
    code = ("import json,sys\njobs=json.load(sys.stdin)\nout=[]\n"
            "for src,env in jobs:\n"
            "    try: out.append(eval(src,{},dict(env)))\n"
            "    except Exception as e: out.append(['raise',type(e).__name__])\n"
            "print(json.dumps(out))\n")
    ref = json.loads(subprocess.run(["/venv/bin/python", "-c", code], input=json.dumps(jobs), capture_output=True,
                                    text=True, check=True).stdout)
    bad = []
    n = 0
    nsym = 0
    for (src, env), want in zip(jobs, ref):
        before = len(x.obligs)
        got = eval_expr(x, src, env)
        new_obs = x.obligs[before:]
        n += 1
        if isinstance(want, list) and want and want[0] == "raise":
            # the model must flag the operation: a raise outcome, or a safety obligation whose goal is false here
            flagged = any(isinstance(g, tuple) and g[0] == "raise" for g in got)
            for o in new_obs:
                if o.kind == "safety":
                    sol = z3.Solver()
                    for c in o.pc:
                        sol.add(c)
                    sol.add(z3.Not(o.goal))
                    flagged = flagged or sol.check() == z3.sat
            ok = flagged
        else:
            # no spurious safety obligation, and the value agrees (or is a constrained fresh value: counted)
            spurious = False
            for o in new_obs:
                if o.kind == "safety":
                    sol = z3.Solver()
                    for c in o.pc:
                        sol.add(c)
                    sol.add(z3.Not(o.goal))
                    spurious = spurious or sol.check() == z3.sat
            sym = bool(got) and all(isinstance(g, tuple) and g[0] == "symbolic" for g in got)
            nsym += sym
            ok = (not spurious) and bool(got) and (any(g == want for g in got) or sym)
        if not ok:
            bad.append({"expr": src, "env": env, "model": [str(g) for g in got], "cpython": want})
    print(f"[modelcheck] {n} concrete evaluations of {len(CASES)} modelled operations; exact: {n - nsym - len(bad)}, "
          f"constrained-fresh (not comparable): {nsym}, disagreements: {len(bad)}")
    for b in bad[:15]:
        print("  DISAGREE", json.dumps(b, ensure_ascii=False)[:300])
    return 3 if bad else 0


if __name__ == "__main__":
    sys.exit(main())
