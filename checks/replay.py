"""./run replay <file>: re-execute a replay file against /repo's current working tree.
bounded-tier entries: the bounded driver of that property is run again and the entry's obligation is looked up;
static entries: the property's check is run again and the obligation identity is looked up in its output."""
import json
import subprocess
import sys
from pathlib import Path

from pyvc import check


def main(path):
    d = json.loads(Path(path).read_text())
    prop = d["property"]
    ident = d.get("ident") or d.get("obligation")
    print(f"property={prop} obligation={ident}")
    if d.get("tier") == "bounded":
        b = check.run_repo_py(f"bounded/{prop.lower()}_run.py", {"tier": "quick", "seed": 0}, timeout=3000)
        hits = [f for f in b.get("failures", []) if f["ident"] == ident]
        print(json.dumps(hits[:1], indent=1, ensure_ascii=False)[:1500])
        print("REPRODUCED" if hits else "NOT REPRODUCED on the current tree")
        return 1 if hits else 0
    p = subprocess.run(["python3-vt", "-m", f"checks.{prop.lower()}", "quick"], capture_output=True, text=True)
    hit = any(ident in line for line in p.stdout.splitlines() if line.strip().startswith("obligation:"))
    print(json.dumps({k: d.get(k) for k in ("kind", "site", "line", "exception", "model", "replay")}, indent=1,
                     ensure_ascii=False, default=str)[:2000])
    print("REPRODUCED (obligation fails again)" if hit else "NOT REPRODUCED on the current tree")
    return 1 if hit else 0


if __name__ == "__main__":
    sys.exit(main(sys.argv[1]))
