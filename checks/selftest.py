"""selftest: every seeded defect must be detected by the check(s) of its property (exit 1, or exit 2 with a
bounded-tier/static signal), run on a scratch copy of /repo's working tree (VERIF_REPO), never on /repo itself.
Also verifies that the unchanged scratch copy is green.  Writes selftest_report.json (not an evidence file)."""
import json
import os
import shutil
import subprocess
import sys
import tempfile
from pathlib import Path

VERIF = Path(__file__).resolve().parent.parent
EXTRA = {"C13-2": ["C16", "C13"], "C05-1": ["C16", "C05"], "C12-2": ["C12", "C10"], "C17-7": ["C17", "C10"]}


def run_check(pid, repo):
    env = dict(os.environ, VERIF_REPO=str(repo), PYTHONPATH=str(VERIF))
    p = subprocess.run(["python3-vt", "-m", f"checks.{pid.lower()}", "quick"], cwd=VERIF, env=env,
                       capture_output=True, text=True, timeout=3600)
    viol = [l for l in p.stdout.splitlines() if l.startswith("VIOLATION")]
    und = [l for l in p.stdout.splitlines() if l.startswith("UNDECIDED")]
    return p.returncode, viol, und


def main():
    import signal
    signal.signal(signal.SIGTERM, lambda *a: sys.exit(143))      # so that the evidence files are restored
    only = [a for a in sys.argv[1:] if a not in ("quick", "thorough")] or None
    if not only:
        from checks import modelcheck
        rc = modelcheck.main()
        if rc:
            return rc
    report = {}
    base = Path(tempfile.mkdtemp(prefix="verif_selftest_"))
    # checks rewrite evidence/<id>.json on every run: keep the files produced against /repo itself
    saved = base / "evidence_saved"
    if (VERIF / "evidence").exists():
        shutil.copytree(VERIF / "evidence", saved)
    try:
        seeds = sorted(p for p in (VERIF / "seeded").iterdir() if (p / "patch.diff").exists())
        if only:
            seeds = [s for s in seeds if s.name in only]
        ok = True
        for sd in seeds:
            pid = sd.name.split("-")[0]
            scratch = base / sd.name
            shutil.copytree("/repo/src", scratch / "src")
            shutil.copytree("/repo/tests", scratch / "tests")
            r = subprocess.run(["patch", "-p1", "-s", "-i", str(sd / "patch.diff")], cwd=scratch, capture_output=True, text=True)
            if r.returncode != 0:
                report[sd.name] = {"status": "patch-does-not-apply", "detail": r.stdout[-300:]}
                ok = False
                shutil.rmtree(scratch)
                continue
            results = {}
            detected = False
            for chk in EXTRA.get(sd.name, [pid]):
                rc, viol, und = run_check(chk, scratch)
                results[chk] = {"exit": rc, "violations": len(viol), "undecided": len(und), "first": (viol or und or [""])[0][:200],
                                "tiers": sorted({"B" if "-bounded-" in v else "S" for v in viol})}
                detected = detected or rc == 1
            report[sd.name] = {"status": "detected" if detected else "MISSED", "checks": results}
            ok = ok and detected
            print(f"{sd.name}: {report[sd.name]['status']}  {results}", flush=True)
            shutil.rmtree(scratch)
        (VERIF / "selftest_report.json").write_text(json.dumps(report, indent=1))
        # restore evidence files written against scratch copies: re-run is the caller's job
        return 0 if ok else 1
    finally:
        if saved.exists():
            shutil.rmtree(VERIF / "evidence", ignore_errors=True)
            shutil.copytree(saved, VERIF / "evidence")
        shutil.rmtree(base, ignore_errors=True)


if __name__ == "__main__":
    sys.exit(main())
