"""C01 -- parse totality and well-formedness: the carrier functions that can be brought under contract."""
from pyvc.vx import Contract


def contracts():
    cs = []
    # parse_encoded: per-parse flags set before the first token; stack emptied on every exit
    cs.append(Contract(
        target="parser:parse_encoded", prop="C01", mode="frame", params={"ctx": "ctx", "text": "str"},
        asserts={"process_text(ctx, text)": ["ctx.pre_parse == False", "ctx.beginning_of_line == True",
                                            "len(ctx.parser_stack) == 1"]},
        ensures=["len(ctx.parser_stack) == 0"], raises_ensures=["len(ctx.parser_stack) == 0"]))
    # _parser_merge_str_children: afterwards the children contain no empty string and no two adjacent strings
    cs.append(Contract(
        target="parser:_parser_merge_str_children", prop="C01", mode="frame", params={"ctx": "ctx"},
        abstract_locals={"new_children": "kindseq"},
        loops={"for x in node.children": {
            "invariant": ["children_well_formed(new_children)", "ends_with_node_or_empty(new_children)"]}},
        asserts={"node.children = new_children": ["children_well_formed(new_children)"]}))
    # _parser_push: pending strings of the current node are finalized first; the new node becomes the last child of
    # the node that was on top and the new top of the stack, and is the node returned -- on every path (one per
    # node class)
    cs.append(Contract(
        target="parser:_parser_push", prop="C01", mode="frame", params={"ctx": "ctx", "kind": "opq"},
        track_log=True, log_names=["_parser_merge_str_children", "append"],
        asserts={"prev = ctx.parser_stack[-1]": ["logged('_parser_merge_str_children') == 1", "logged('append') == 0"]},
        ensures=["logged('append') == 2", "logged('_parser_merge_str_children') == 1",
                 "same_object(call_arg('append', 0, 0), result)", "same_object(call_arg('append', 1, 0), result)",
                 "same_object(result, node)"]))
    return cs


def setup_registry(reg):
    reg.add(Contract(target="core:Wtp._finalize_expand", variant="callee", prop="C01", mode="frame", result="str",
                     assumed=["_finalize_expand returns a str"]))
