"""C01 (part): stack discipline of the parser -- the root node, and only it, has kind ROOT and is never popped;
no handler indexes or pops an empty stack.  Ghost view of ctx.parser_stack: pyvc/pnodes.py (one character per node,
the kind of the node).

Every function of parser.py that can reach a write of ctx.parser_stack has the contract
    requires stack_ok()   ensures stack_ok()
(stack_ok: the stack is non-empty, its bottom node has kind ROOT and no other node has).  VERIFIED lists the
functions whose bodies are checked against it (callees by contract); ASSUMED lists those whose contract is only
assumed at call sites, with the obligation that could not be discharged by local reasoning -- they are covered by
the bounded tier only and are listed as assumptions in the evidence."""
from pyvc.vx import Contract

OK = "stack_ok()"
BASE = dict(prop="C01", mode="frame", node_stack="parser_stack", modifies=["parser_stack"], assume_ensures=True,
            default_loop={"havoc_ghost": ["parser_stack"], "invariant": [OK]})

# token handlers (ctx, token) whose body is verified
VERIFIED = ["text_fn", "hline_fn", "subtitle_start_fn", "italic_fn", "bold_fn", "magic_fn", "colon_fn",
            "mistokenized_start_fn", "table_start_fn", "vbar_fn", "double_vbar_fn", "tag_fn", "magicword_fn"]
# token handlers whose contract is assumed: the undischarged obligation in each is the precondition
# `at least two nodes on the stack` of a _parser_pop call that relies on what an earlier callee left behind
ASSUMED = {
    "subtitle_end_fn": "pops `pop_count` nodes counted by a scan of the stack from the top",
    "url_fn": "pops the URL node it pushed after text_fn ran in between",
    "table_caption_fn": "pops down to the TABLE node found by _parser_have before (warn_unclosed pops may cascade)",
    "table_hdr_cell_fn": "same, down to a TABLE/TABLE_ROW node",
    "table_row_fn": "same, down to the TABLE node",
    "table_cell_fn": "same, down to a TABLE/TABLE_ROW node",
    "table_end_fn": "same, down to the TABLE node",
    "list_fn": "pops via pop_until_nth_list and list-prefix comparison loops",
}
ASSUMED_OTHER = {"pop_until_nth_list": "pops len(stack) - passed_nodes nodes computed by a scan from the bottom"}
HANDLERS = VERIFIED + sorted(ASSUMED)

HANDLER_CB = {"text": "tokenops[...] is one of the token handlers of parser.py, each of which has the stack contract",
              "members": HANDLERS, "requires": [OK], "modifies": ["parser_stack"], "ensures": [OK]}


def C(target, **kw):
    d = dict(BASE)
    d.update(kw)
    return Contract(target="parser:" + target, **d)


def contracts():
    cs = []
    cs.append(C("_parser_push", params={"ctx": "ctx", "kind": "kind"},
                requires=[OK, "kind != NodeKind.ROOT"],
                ensures=["ctx.parser_stack == old(ctx.parser_stack) + [kind]", "result.kind == kind"], result="pnode"))
    cs.append(C("_parser_pop", params={"ctx": "ctx", "warn_unclosed": "bool"},
                requires=[OK, "seq_len(ctx.parser_stack) >= 2"],
                ensures=[OK, "implies(not warn_unclosed, ctx.parser_stack == old(ctx.parser_stack)[:-1])"]))
    # _parser_have: true exactly when a node of one of the given kinds is on the stack (the scan runs to
    # exhaustion only if every node took the fall-through path)
    cs.append(C("_parser_have", params={"ctx": "ctx", "kind_flags": "kindset"}, modifies=[], requires=[],
                loops={"for node in ctx.parser_stack": {"exhaustive": True}},
                ensures=["result == has_kind(ctx.parser_stack, kind_flags)"], result="bool"))
    cs.append(C("close_begline_lists", params={"ctx": "ctx"}, requires=[OK], ensures=[OK]))
    for h in VERIFIED:
        kw = {}
        if h in ("italic_fn", "bold_fn"):
            k = "ITALIC" if h == "italic_fn" else "BOLD"
            # the closing loop pops (exactly one node each time) until it meets the node _parser_have saw
            kw["loops"] = {"while True": {"havoc_ghost": ["parser_stack"],
                                          "invariant": [OK, f"has_kind(ctx.parser_stack, NodeKind.{k})"]}}
        cs.append(C(h, params={"ctx": "ctx", "token": "str"}, requires=[OK], ensures=[OK], **kw))
    for h in ("table_check_attrs", "table_row_check_attrs"):
        cs.append(C(h, params={"ctx": "ctx"}, requires=[OK], ensures=[OK]))
    cs.append(C("process_text", params={"ctx": "ctx", "text": "str"}, requires=[OK], ensures=[OK],
                callbacks={"tokenops[token]": "handler", "tokenops[t2]": "handler"}))
    # parse_encoded: the stack starts as [ROOT]; after the closing loop exactly the root is left, so the
    # `assert len(ctx.parser_stack) == 1` cannot fail; the stack is emptied on every exit
    cs.append(C("parse_encoded", params={"ctx": "ctx", "text": "str"}, requires=[],
                asserts={"process_text(ctx, text)": [OK, "seq_len(ctx.parser_stack) == 1"],
                         "assert len(ctx.parser_stack) == 1": ["seq_len(ctx.parser_stack) == 1"]},
                loops={"while True": {"havoc_ghost": ["parser_stack"], "invariant": [OK]}},
                ensures=["seq_len(ctx.parser_stack) == 0"], raises_ensures=["seq_len(ctx.parser_stack) == 0"]))
    return cs


CALLBACK_CONTRACTS = {"handler": HANDLER_CB}


def setup_registry(reg):
    reg.callback_contracts.update(CALLBACK_CONTRACTS)
    reg.add(Contract(target="parser:_parser_merge_str_children", variant="callee", prop="C01", mode="frame",
                     node_stack="parser_stack", requires=["seq_len(ctx.parser_stack) >= 1"],
                     assumed=["_parser_merge_str_children reads the top of the stack only (its own contract: contracts/c01.py)"]))
    reg.add(Contract(target="core:Wtp.namespace_prefixes", variant="callee", prop="C01", mode="frame", result="opq"))
    for h, why in list(ASSUMED.items()) + list(ASSUMED_OTHER.items()):
        reg.add(C(h, variant="callee", requires=[OK], ensures=[OK],
                  assumed=[f"{h} keeps the stack discipline (assumed; bounded tier only): {why}"]))
