"""C04 -- template expansion agrees with the reference transclusion semantics (partial)."""
from pyvc.vx import Contract

PF = {"ctx": "ctx", "fn_name": "str", "args": "strlist", "expander": "cb:total_str"}


def contracts():
    cs = []
    cs.append(Contract(target="common:add_newline_to_expansion", prop="C04", mode="value",
                       params={"text": "str"}, ensures=["result == spec.add_newline(text)"], raises=[], result="str"))
    cs.append(Contract(target="parserfns:if_fn", prop="C04", mode="value", params=dict(PF),
                       ensures=["result == spec.if_spec(args)"], raises=[], result="str"))
    cs.append(Contract(target="parserfns:ifeq_fn", prop="C04", mode="value", params=dict(PF),
                       ensures=["result == spec.ifeq_spec(args)"], raises=[], result="str"))
    # #switch: per-iteration obligations of the case loop (MediaWiki fall-through rules):
    #   a bare case never returns; it latches "match" when it equals the subject and latches "default follows"
    #   when it is #default; a latch, once set, stays set until a keyed case is reached;
    #   a keyed case k=v returns (trimmed, expanded) v iff its key equals the subject or a bare case latched a match
    cs.append(Contract(
        target="parserfns:switch_fn", prop="C04", mode="value", params=dict(PF),
        loops={"for arg in args[1:]": {"iteration_post": [
            "implies(m is None, match_next == (match_next_at_head or (expander(arg).strip() == val)))",
            "implies(m is None, next_val_is_default == (next_val_is_default_at_head or "
            "(expander(arg).strip().lower() == '#default')))",
            # a keyed case that did not return: it did not match and no bare case had matched
            "implies(m is not None, (not match_next_at_head) and k != val)",
            "implies(m is not None, match_next == match_next_at_head)"]}},
        asserts={"return expander(v).strip()": ["k == val or match_next"]},
        raises=[], result="str"))
    # undefined parameter without default stays literal
    cs.append(Contract(target="core:Wtp._unexpanded_arg", prop="C04", mode="value",
                       params={"args": "strlist", "nowiki": "const:False"},
                       ensures=["result == '{{{' + '|'.join(args) + '}}}'"], raises=[], result="str"))
    # data flow in the template branch of expand_recurse (frame mode, ghost call log on the two expanders):
    #   every argument is expanded in the CALLER's frame (`parent`) with expand_all=True,
    #   the body is expanded in the new frame (page title, argument map) after parameter substitution with that map
    cs.append(Contract(
        target="core:Wtp.expand.expand_recurse", variant="dataflow", prop="C04", mode="frame",
        params={"coded": "str", "parent": "opq", "expand_all": "bool"},
        callbacks={"template_fn": "user_template_fn", "post_template_fn": "user_post_fn",
                   "self.template_override_funcs[name]": "user_override"},
        requires=["'Template' in ctx.NAMESPACE_DATA"],
        track_log=True, log_names=["expand_recurse", "expand_args"],
        asserts={
            "ht[k] = arg": [
                # the value stored is the result of the last recursive expansion ...
                # (a named value additionally trimmed after expansion)
                "implies(not m2, same_object(arg, call_result('expand_recurse', -1)))",      # positional: verbatim
                "implies(m2, derived(arg, call_result('expand_recurse', -1), 'strip'))",     # named (also 1=...): trimmed
                # ... which ran in the caller's frame with everything expanded
                "same_object(call_arg('expand_recurse', -1, 1), parent)",
                "call_arg('expand_recurse', -1, 2) == True"],
            "new_parent = (template_page.title, ht)": [
                # parameters of the body were substituted with exactly this call's argument map
                "same_object(call_arg('expand_args', -1, 1), ht)",
                "same_object(encoded_body, call_result('expand_args', -1))"],
            "if body.startswith(('#', '*', ';', ':')):": [],
        }))
    # the includable part of a template body: the order / chaining of the removals (shared with C12)
    from contracts import c12
    body = c12.template_to_body_contract()
    body.prop = "C04"
    cs.append(body)
    return cs


CALLBACK_CONTRACTS = {
    "user_template_fn": {"text": "user hook template_fn(name, ht) -> Optional[str]", "result": "optstr", "may_raise": True},
    "user_post_fn": {"text": "user hook post_template_fn(name, ht, t) -> Optional[str]", "result": "optstr", "may_raise": True},
    "user_override": {"text": "template_override_funcs[name](args) -> str", "result": "str", "may_raise": True},
}


def setup_registry(reg):
    reg.callback_contracts.update(CALLBACK_CONTRACTS)
    for t, r in (("core:Wtp.get_page", "optpage"), ("core:Wtp.check_template_need_expand", "bool"),
                 ("core:Wtp.get_page_resolve_redirect", "optpage")):
        reg.add(Contract(target=t, variant="callee", prop="C04", mode="value", result=r,
                         raises=["sqlite3.ProgrammingError"]))
    reg.add(Contract(target="core:Wtp.expand.expand_recurse", variant="callee", prop="C04", mode="frame",
                     result="str"))
    reg.add(Contract(target="core:Wtp.expand.expand_recurse.expand_args", variant="callee", prop="C04", mode="frame",
                     result="str"))
