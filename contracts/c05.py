"""C05 -- termination and in-band failure: parser-function totality (P1),
conversion guards (P4), detect_expand_template_loop safety (P3)."""
import ast

from pyvc import loader
from pyvc.vx import Contract

PF_PARAMS = {"ctx": "ctx", "wtp": "ctx", "fn_name": "str", "args": "strlist", "expander": "cb:total_str"}

# shipped-data facts: hold in all 290 namespaces.json / 96 localization.json files
# (checked by complete enumeration on every run, see checks/c05.py)
CTX_FACTS = [
    "'Talk' in ctx.NAMESPACE_DATA", "'Template' in ctx.NAMESPACE_DATA", "'Module' in ctx.NAMESPACE_DATA",
    "'Project' in ctx.NAMESPACE_DATA", "'MediaWiki' in ctx.NAMESPACE_DATA", "'Main' in ctx.NAMESPACE_DATA",
]


def parser_function_names():
    mod = loader.module("parserfns")
    node = mod.top["PARSER_FUNCTIONS"]
    names = []
    for v in node.value.values:
        if isinstance(v, ast.Tuple):
            v = v.elts[0]
        if isinstance(v, ast.Name) and v.id not in names:
            names.append(v.id)
    return names


# functions whose bodies are dominated by library calls without a usable
# specification or by mutually recursive closures: reported out of reach by
# name, covered only by the bounded tier
DECLARED_OUT_OF_REACH = {
    "expr_fn": "11 mutually recursive closures over nonlocal tokidx and tables of lambdas/math functions; "
               "float arithmetic is opaque in the encoding (bounded tier: #expr differential + no-raise sweep)",
    "time_fn": "dateparser/strftime dominated",
    "timel_fn": "appends to its symbolic args list (engine: no mutation of symbolic lists) then calls time_fn",
    "dateformat_fn": "dateparser dominated",
    "fullurl_fn": "string methods on values of the interwiki table (sqlite cache of a network resource): "
                  "`interwiki_map[prefix]['url'].replace(...)` is a call on an opaque value whose shape only the "
                  "remote API fixes",
}

# callee contracts assumed here and owned by other properties
CALLEES = [
    dict(target="core:Wtp.get_page", result="optpage", owner="C10"),
    dict(target="core:Wtp.get_page_body", result="optstr", owner="C10"),
    dict(target="core:Wtp.get_page_resolve_redirect", result="optpage", owner="C10"),
    dict(target="core:Wtp.page_exists", result="bool", owner="C10"),
    dict(target="core:Wtp.saved_page_nums", result="int", owner="C10"),
    dict(target="common:nowiki_quote", result="str", owner="C15"),
    dict(target="parserfns:expr_fn", result="str", owner="bounded tier only (declared out of reach); known findings live there"),
    dict(target="interwiki:get_interwiki_map", result="opq", owner="assumed (sqlite cache of a network table)"),
    # #property / #statements: their own bodies are under the totality contract; the query behind them is not
    dict(target="wikidata:statement_query", result="str",
         owner="assumed (network query to wikidata with an sqlite cache; not executable offline)"),
]


def callee_contracts():
    return [Contract(target=d["target"], prop="C05", mode="value", result=d["result"], raises=[],
                     assumed=[f"callee contract of {d['target']} (total, returns {d['result']}) -- owner: {d['owner']}"])
            for d in CALLEES]


def contracts():
    cs = []
    for name in parser_function_names():
        if name in DECLARED_OUT_OF_REACH:
            continue
        mod, fn = loader.find("parserfns:" + name)
        params = {a.arg: PF_PARAMS.get(a.arg, "opq") for a in fn.args.args}
        req = list(CTX_FACTS)
        if name == "categorytree_fn":
            params["args"] = "opq"       # the only function registered with accept_keyed_args
            req.append("isinstance(args, dict)")
        cs.append(Contract(target="parserfns:" + name, prop="C05", mode="value", params=params,
                           requires=req, raises=[], result="str", loops=LOOPS.get(name, {})))
    # the e operator of #expr: its two loops run at most 400 times (bounded time, not merely termination: the
    # exponent comes from the page text) -- `y <= 400` where the counting loop starts, `y >= -400` as an invariant of
    # the zero-stripping loop, whose variant -y then bounds the iterations
    cs.append(Contract(target="parserfns:binary_e_fn", prop="C05", mode="value", params={"x": "int", "y": "int"},
                       raises=["OverflowError", "ValueError"],      # math.pow range errors: caught by expr_fn, in-band
                       result="opq",
                       asserts={"for i in range(y)": ["y <= 400"]},
                       loops={"for i in range(y)": {"invariant": ["y <= 400"]},
                              "while y < 0": {"invariant": ["y >= -400", "y <= 0"], "variant": "0 - y"}}))
    # the per-match callback of the #time formatter: total for every match text (a match of the format regex is a
    # non-empty string; nothing else is assumed about it), calls into the letter table by assumed total contract
    cs.append(Contract(target="parserfns:format_with_wiki_timeformat.fmt_repl", prop="C05", mode="value",
                       params={"m": "match"}, free={"ctx": "ctx", "t": "opq"},
                       requires=["len(m.group(0)) >= 1"],
                       # `assert callable(v)`: excluded by the finite obligation on the letter table (checks/c05.py)
                       raises=["AssertionError"], result="opq",
                       callbacks={"v": "time_letter_fn"}))
    cs.append(Contract(target="core:detect_expand_template_loop", prop="C05", mode="value",
                       params={"stack": "strlist"}, raises=[], result="bool"))
    cs.append(Contract(target="parserfns:call_parser_function", prop="C05", mode="value",
                       params={"ctx": "ctx", "fn_name": "str", "args": "strlist", "expander": "cb:total_str"},
                       requires=list(CTX_FACTS), raises=[], result="str",
                       callbacks={"fn": "parser_function"}))
    # P2: in-band failure on the two guarded branches of expand_recurse (frame mode, every path reaching them)
    cs.append(Contract(
        target="core:Wtp.expand.expand_recurse", variant="inband", prop="C05", mode="frame",
        params={"coded": "str", "parent": "opq", "expand_all": "bool"},
        callbacks={"template_fn": "user_hook", "post_template_fn": "user_hook",
                   "self.template_override_funcs[name]": "user_hook"},
        requires=["seq_len(ctx.expand_stack) >= 1"],
        track_log=True, log_names=["error", "warning", "expand_recurse", "expand_args"],
        asserts={
            # depth limit: the error was recorded, nothing was expanded for this call, the path is untouched,
            # and the part appended is an error element
            "parts.append('<strong class=\"error\">too deep recursion": [
                "logged('error') == 1", "logged('expand_recurse') == 0", "logged('expand_args') == 0",
                "seq_len(ctx.expand_stack) >= 100", "ctx.expand_stack == old(ctx.expand_stack)"],
            # template loop: the error element is appended while the looping frame is still on the path ...
            "parts.append(f'<strong class=\"error\">Template loop detected": [
                "seq_len(ctx.expand_stack) == seq_len(old(ctx.expand_stack)) + 1"],
            # ... then the frame is popped and the warning recorded, without expanding the body
            "self.warning(f'Template loop detected": [
                "ctx.expand_stack == old(ctx.expand_stack)", "logged('warning') == 0"],
        }))
    return cs


CALLBACK_CONTRACTS = {
    "user_hook": {"text": "user hook", "result": "opq", "may_raise": True},
    "time_letter_fn": {"text": "the callables of time_fmt_map (lambdas over datetime / locale tables) are total",
                       "result": "opq", "may_raise": False},
    "parser_function": {"text": "every value of PARSER_FUNCTIONS is one of the functions under the totality "
                                "contract above (checked: the dict literal's values are exactly those names)",
                        "result": "str", "may_raise": False},
}


LOOPS = {
    "formatnum_fn": {"while i < len(first)": {"invariant": ["0 <= algo_i", "algo_i < len(algo)"]}},
}


def setup_registry(reg):
    for c in callee_contracts():
        reg.add(c)
    reg.callback_contracts.update(CALLBACK_CONTRACTS)
