"""C06 -- Lua confinement, Python boundary only."""
from pyvc.vx import Contract


def contracts():
    cs = []
    cs.append(Contract(
        target="luaexec:initialize_lua.filter_attribute_access", prop="C06", mode="value",
        params={"obj": "opq", "attr_name": "str", "is_setting": "bool"},
        ensures=["result == attr_name", "not attr_name.startswith('_')", "not isinstance(obj, partial)",
                 "not isinstance(obj, BaseException)"],
        raises=["AttributeError"],
        raises_ensures=["attr_name.startswith('_') or isinstance(obj, partial) or isinstance(obj, BaseException)"],
        result="str"))
    cs.append(Contract(
        target="luaexec:initialize_lua.filter_attribute_access", variant="non_str_name", prop="C06", mode="value",
        params={"obj": "opq", "attr_name": "int", "is_setting": "bool"},
        ensures=["False"],                      # never returns normally for a non-str attribute name
        raises=["AttributeError"], result="str"))
    return cs
