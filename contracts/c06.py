"""C06 -- Lua confinement, Python boundary only."""
from pyvc.vx import Contract


def contracts():
    cs = []
    cs.append(Contract(
        target="luaexec:initialize_lua.filter_attribute_access", prop="C06", mode="value",
        params={"obj": "opq", "attr_name": "str", "is_setting": "bool"},
        ensures=["result == attr_name", "not attr_name.startswith('_')", "not isinstance(obj, partial)",
                 "not isinstance(obj, BaseException)"],
        raises=["AttributeError"],
        raises_ensures=["attr_name.startswith('_') or isinstance(obj, partial) or isinstance(obj, BaseException)"],
        result="str"))
    cs.append(Contract(
        target="luaexec:initialize_lua.filter_attribute_access", variant="non_str_name", prop="C06", mode="value",
        params={"obj": "opq", "attr_name": "int", "is_setting": "bool"},
        ensures=["False"],                      # never returns normally for a non-str attribute name
        raises=["AttributeError"], result="str"))
    # lua_loader: the relative path appended to the built-in Lua directory has no '..' segment and is not absolute
    # (so LUA_DIR / prefix / path stays below LUA_DIR / prefix, symbolic links aside)
    cs.append(Contract(
        target="luaexec:lua_loader", prop="C06", mode="frame", params={"ctx": "ctx", "modname": "str"}, cvc5_first=True,
        candidate_refutations=True,
        asserts={"file_path = LUA_DIR / prefix / path": [
            "not path.startswith('/')", "'/../' not in path", "not path.startswith('../')", "path != '..'",
            "not path.endswith('/..')", "path.endswith('.lua')"]},
        assumed=["pathlib: joining a relative path without '..' segments stays below the left operand (symbolic links "
                 "inside the package's lua directory are not considered)"]))
    return cs
