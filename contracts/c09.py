"""C09 -- history independence (Python side): per-page and per-parse state is re-established."""
from pyvc.vx import Contract


def contracts():
    cs = []
    lists = ["errors", "warnings", "debugs", "notes", "wiki_notices"]
    cs.append(Contract(
        target="core:Wtp.start_page", prop="C09", mode="frame", params={"title": "str"},
        modifies=["expand_stack"] + lists,
        ensures=["ctx.title == title", "seq_len(ctx.expand_stack) == 1", "ctx.expand_stack[0] == title",
                 "ctx.section is None", "ctx.subsection is None",
                 "len(ctx.cookies) == 0", "len(ctx.rev_ht) == 0"] + [f"len(ctx.{l}) == 0" for l in lists] +
                ["logged('clear') >= 3"],          # lua_env_stack, lua_frame_stack, strip_marker_cache
        track_log=True, log_names=["clear"]))
    cs.append(Contract(
        target="parser:parse_encoded", prop="C09", mode="frame", params={"ctx": "ctx", "text": "str"},
        asserts={"process_text(ctx, text)": [
            "ctx.beginning_of_line == True", "ctx.wsp_beginning_of_line == False", "ctx.linenum == 1",
            "ctx.pre_parse == False", "ctx.suppress_special == False", "len(ctx.parser_stack) == 1"]},
        ensures=["len(ctx.parser_stack) == 0"],
        raises_ensures=["len(ctx.parser_stack) == 0"]))
    return cs


def setup_registry(reg):
    pass
