"""C10 -- page store: memo coherence (ghost flag for functools.lru_cache on
get_page), stored row of add_page, lookup structure."""
from pyvc.vx import Contract

UPSERT = ("sql_text(0) == 'INSERT INTO pages (title, namespace_id, body, redirect_to, need_pre_expand, model) "
          "VALUES (?, ?, ?, ?, ?, ?) ON CONFLICT(title, namespace_id) DO UPDATE SET body=excluded.body, "
          "redirect_to=excluded.redirect_to, need_pre_expand=excluded.need_pre_expand, model=excluded.model'")
WRITERS_NOTE = "table writers must leave the get_page memo coherent (cleared after the last write)"


def contracts():
    cs = []
    # --- memo coherence: every function that writes the pages table
    cs.append(Contract(
        target="core:Wtp.add_page", prop="C10", mode="value",
        params={"title": "str", "namespace_id": "int", "body": "str", "redirect_to": "none",
                "need_pre_expand": "bool", "model": "str"},
        requires=["memo_coherent()", "'Template' in ctx.NAMESPACE_DATA"],
        ensures=["memo_coherent()",
                 "sql_count('write') == 1",
                 # stored key and fields: exactly the normalised title and the given fields
                 "sql_params(0)[0] == spec.norm_add(title, namespace_id, ctx.LOCAL_NS_NAME_BY_ID)",
                 "sql_params(0)[1] == namespace_id",
                 "sql_params(0)[3] is None", "sql_params(0)[4] == need_pre_expand",
                 "sql_params(0)[5] == model",
                 "implies(namespace_id != ctx.NAMESPACE_DATA['Template']['id'], sql_params(0)[2] == body)"],
        drift=[UPSERT],
        raises=[], result="none"))
    cs.append(Contract(
        target="core:Wtp.add_page", variant="redirect", prop="C10", mode="value",
        params={"title": "str", "namespace_id": "int", "body": "none", "redirect_to": "str",
                "need_pre_expand": "bool", "model": "none"},
        requires=["memo_coherent()", "'Template' in ctx.NAMESPACE_DATA"],
        ensures=["memo_coherent()", "sql_count('write') == 1",
                 "sql_params(0)[0] == spec.norm_add(title, namespace_id, ctx.LOCAL_NS_NAME_BY_ID)",
                 "sql_params(0)[2] is None", "sql_params(0)[3] == redirect_to", "sql_params(0)[5] == 'wikitext'"],
        raises=[], result="none"))
    cs.append(Contract(target="core:Wtp.set_template_pre_expand", prop="C10", mode="value",
                       params={"name": "str"}, requires=["memo_coherent()"],
                       ensures=["memo_coherent()", "sql_count('write') == 1", "sql_params(0)[0] == name"],
                       raises=[], result="none", effects=["memo_valid"]))
    cs.append(Contract(target="core:Wtp.analyze_templates", prop="C10", mode="frame",
                       params={"check_template_func": "opq"},
                       requires=["memo_coherent()"], ensures=["memo_coherent()"],
                       callbacks={"check_template_func": "classifier"},
                       loops={"for page in self.get_all_pages([template_ns_id])":
                              {"havoc_ghost": ["memo_valid"], "invariant": ["memo_coherent()"]},
                              "while len(expand_stack) > 0":
                              {"havoc_ghost": ["memo_valid"], "invariant": ["memo_coherent()"]},
                              "for template_title in included_map[title_no_ns_prefix]":
                              {"havoc_ghost": ["memo_valid"], "invariant": ["memo_coherent()"]}}))
    # --- lookups
    cs.append(Contract(
        target="core:Wtp.get_page", prop="C10", mode="value",
        params={"title": "str", "namespace_id": "int", "no_redirect": "bool"},
        requires=["memo_coherent()", "namespace_id != 0", "namespace_id in ctx.LOCAL_NS_NAME_BY_ID"],
        ensures=["memo_coherent()", "sql_count('write') == 0",
                 # the empty title is never looked up
                 "implies(len(title.replace('_', ' ')) == 0, result is None)",
                 # every key carries the local namespace prefix; the alternative key of the UNION differs
                 # from the primary key only by upper-casing the first letter after the prefix
                 "implies(sql_count('select') == 1, sql_params(0)[0].startswith(PFX))",
                 "implies(sql_count('select') == 1 and len(sql_params(0)) == 4, sql_params(0)[2] == "
                 "PFX + sql_params(0)[0][len(PFX):][:1].upper() + sql_params(0)[0][len(PFX):][1:])",
                 "implies(sql_count('select') == 1, sql_params(0)[1] == namespace_id)"],
        lets={"PFX": "ctx.LOCAL_NS_NAME_BY_ID[namespace_id] + ':'"},
        drift=["sql_count('select') == 0 or sql_text(0).startswith('SELECT title, namespace_id, redirect_to, "
               "need_pre_expand, body, model FROM pages WHERE title = ?')"],
        raises=["sqlite3.ProgrammingError"], result=""))
    cs.append(Contract(
        target="core:Wtp.get_page", variant="main_ns", prop="C10", mode="value",
        params={"title": "str", "namespace_id": "const:0", "no_redirect": "bool"},
        requires=["memo_coherent()"],
        ensures=["memo_coherent()", "sql_count('write') == 0",
                 "implies(sql_count('select') == 1, sql_params(0)[0] == spec.norm_get_main(title))",
                 "implies(sql_count('select') == 1, len(sql_params(0)) == 2)"],
        raises=["sqlite3.ProgrammingError"], result=""))
    cs.append(Contract(target="core:Wtp.page_exists", prop="C10", mode="value",
                       params={"title": "str", "namespace_id": "int"}, requires=["memo_coherent()"],
                       ensures=["logged('get_page') == 1"], raises=["sqlite3.ProgrammingError"], result="bool",
                       track_log=True))
    cs.append(Contract(target="core:Wtp.get_page_resolve_redirect", prop="C10", mode="value",
                       params={"title": "str", "namespace_id": "int"}, requires=["memo_coherent()"],
                       # at most one hop: the title as given in the caller's namespace, then -- for a redirect -- its
                       # target in the SAME caller-given namespace with no_redirect=True; never itself again
                       ensures=["logged('get_page') <= 2", "logged('get_page') >= 1",
                                "logged('get_page_resolve_redirect') == 0",
                                "same_object(call_arg('get_page', 0, 0), title)",
                                "same_object(call_arg('get_page', 0, 1), namespace_id)",
                                "implies(logged('get_page') == 2, same_object(call_arg('get_page', 1, 1), namespace_id))",
                                "implies(logged('get_page') == 2, call_arg('get_page', 1, 2) == True)"],
                       raises=["sqlite3.ProgrammingError"], track_log=True))
    cs.append(Contract(
        target="core:Wtp.add_page", variant="plain_name", prop="C10", mode="value",
        params={"title": "str", "namespace_id": "int", "body": "str", "redirect_to": "none",
                "need_pre_expand": "bool", "model": "str"},
        requires=["memo_coherent()", "'Template' in ctx.NAMESPACE_DATA", "namespace_id != 0",
                  "namespace_id in ctx.LOCAL_NS_NAME_BY_ID", "':' not in title",
                  "':' not in ctx.LOCAL_NS_NAME_BY_ID[namespace_id]",
                  "ctx.LOCAL_NS_NAME_BY_ID[namespace_id] != 'Main'"],     # 'Main' names namespace 0 only
        # a plain name is stored under local prefix + ':' + name: the key get_page computes for that name
        # (variant plain_name) when the name has no underscore, and for prefix + ':' + name (variant local_prefix)
        ensures=["sql_params(0)[0] == ctx.LOCAL_NS_NAME_BY_ID[namespace_id] + ':' + title"],
        raises=[], result="none"))
    # --- spelling lemmas, one call each (together: a plain name looked up with or without the local prefix, and
    #     the key stored by add_page for that name, are the same string)
    cs.append(Contract(
        target="core:Wtp.get_page", variant="plain_name", prop="C10", mode="value",
        params={"title": "str", "namespace_id": "int", "no_redirect": "bool"},
        requires=["memo_coherent()", "namespace_id != 0", "namespace_id in ctx.LOCAL_NS_NAME_BY_ID",
                  "':' not in title", "':' not in ctx.LOCAL_NS_NAME_BY_ID[namespace_id]"],
        ensures=["implies(sql_count('select') == 1, sql_params(0)[0] == PFX + title.replace('_', ' '))"],
        lets={"PFX": "ctx.LOCAL_NS_NAME_BY_ID[namespace_id] + ':'"},
        raises=["sqlite3.ProgrammingError"], result=""))
    cs.append(Contract(
        target="core:Wtp.get_page", variant="local_prefix", prop="C10", mode="value",
        params={"title": "str", "namespace_id": "int", "no_redirect": "bool"},
        requires=["memo_coherent()", "namespace_id != 0", "namespace_id in ctx.LOCAL_NS_NAME_BY_ID",
                  "title.replace('_', ' ').startswith(ctx.LOCAL_NS_NAME_BY_ID[namespace_id] + ':')",
                  "not title.replace('_', ' ').startswith('Main:')"],
        ensures=["implies(sql_count('select') == 1, sql_params(0)[0] == title.replace('_', ' '))"],
        raises=["sqlite3.ProgrammingError"], result=""))
    # a title spelled with some other prefix (alias or other letter case) A + ':' + rest, A without a colon: the key
    # looked up is the local prefix followed by `rest` -- everything after the FIRST colon, so names that contain
    # colons themselves keep them -- or, when A is not a prefix of this namespace, the local prefix + the whole title
    cs.append(Contract(
        target="core:Wtp.get_page", variant="other_prefix", prop="C10", mode="value",
        params={"title": "str", "namespace_id": "int", "no_redirect": "bool"},
        requires=["memo_coherent()", "namespace_id != 0", "namespace_id in ctx.LOCAL_NS_NAME_BY_ID",
                  "':' in title", "'_' not in title", "not title.startswith('Main:')",
                  "not title.startswith(ctx.LOCAL_NS_NAME_BY_ID[namespace_id] + ':')"],
        ensures=["implies(sql_count('select') == 1, sql_params(0)[0] == PFX + title[title.index(':') + 1:] "
                 "or sql_params(0)[0] == PFX + title)"],
        lets={"PFX": "ctx.LOCAL_NS_NAME_BY_ID[namespace_id] + ':'"},
        raises=["sqlite3.ProgrammingError"], result=""))
    cs.append(Contract(target="core:Wtp.close_db_conn", prop="C10", mode="frame",
                       ensures=["sql_kind(0) == 'commit'", "sql_kind(1) == 'close'"]))
    return cs


CALLBACK_CONTRACTS = {
    "classifier": {"text": "check_template_func does not write the pages table", "result": "opq", "may_raise": True},
}


def setup_registry(reg):
    from pyvc import effects
    reg.callback_contracts.update(CALLBACK_CONTRACTS)
    infos = effects.analyze({"db_conn", "cache_clear"})
    seeds = {k for k, f in infos.items() if f.writes or f.reads}
    db = effects.effectful_closure(infos, seeds, set())
    reg.db_names = {infos[k].qual.rsplit(".", 1)[-1] for k in db} | {"check_template_func", "cache_clear", "execute"}
    reg.add(Contract(target="core:Wtp._template_to_body", variant="callee", prop="C10", mode="value",
                     result="str", raises=[],
                     assumed=["_template_to_body is total on (str, str) and returns a str (regex-only; its value is "
                              "checked by the C04 bounded tier)"]))
    reg.add(Contract(target="core:Wtp.namespace_prefixes", variant="callee", prop="C10", mode="value",
                     result="colon_tuple", raises=[],
                     assumed=["namespace_prefixes(ns) returns a tuple of strings each ending with ':' "
                              "(F: checked on every namespace of every shipped namespaces.json by the bounded tier)"]))
    # callee view of get_page for the functions above
    reg.add(Contract(target="core:Wtp.get_page", variant="callee", prop="C10", mode="value",
                     requires=["memo_coherent()"], result="optpage", raises=["sqlite3.ProgrammingError"]))
