"""C12 -- dump ingestion stores exactly the selected pages."""
from pyvc.vx import Contract

SELECTED = ("(namespace_id in namespace_ids) and (not title.endswith('/documentation')) and "
            "('/testcases' not in title) and ((redirect_element is not None) or "
            "(model in {'wikitext', 'Scribunto', 'json'}))")

CALLBACK_CONTRACTS = {
    "lxml_text": {"text": "lxml findtext(path, default) returns the element text as str (assumed, external)",
                  "result": "str", "may_raise": False},
    "lxml_find": {"text": "lxml find(path) returns an element or None (assumed, external)", "result": "opq",
                  "may_raise": False},
    "lxml_get": {"text": "lxml element.get(name, default) returns str (assumed, external)", "result": "str",
                 "may_raise": False},
}


def contracts():
    cs = []
    cs.append(Contract(
        target="dumpparser:parse_dump_xml", prop="C12", mode="frame",
        params={"wtp": "ctx", "dump_path": "str", "namespace_ids": "intset"},
        callbacks={"page_element.findtext": "lxml_text", "page_element.find": "lxml_find",
                   "redirect_element.get": "lxml_get"},
        track_log=True, log_names=["add_page"],
        loops={"for (_, page_element) in etree.iterparse(p.stdout if isinstance(p, subprocess.Popen) else p, tag='{*}page')": {
            "iteration_post": [
                # exactly the selected pages are stored, once
                f"logged('add_page') == (1 if ({SELECTED}) else 0)",
                # with their own title, namespace, model; text verbatim for ordinary pages, redirect target for redirects
                "implies(logged('add_page') == 1, same_object(call_arg('add_page', 0, 0), title))",
                "implies(logged('add_page') == 1, same_object(call_arg('add_page', 0, 1), namespace_id))",
                "implies(logged('add_page') == 1, same_object(call_kw('add_page', 0, 'model'), model))",
                "implies(logged('add_page') == 1 and redirect_element is None, "
                "same_object(call_kw('add_page', 0, 'body'), text) and call_kw('add_page', 0, 'redirect_to') is None)",
                "implies(logged('add_page') == 1 and redirect_element is not None, "
                "call_kw('add_page', 0, 'body') is None and "
                "same_object(call_kw('add_page', 0, 'redirect_to'), redirect_to))",
            ]}}))
    cs.append(Contract(
        target="dumpparser:add_default_templates", prop="C12", mode="frame", params={"wtp": "ctx"},
        requires=["'Template' in wtp.NAMESPACE_DATA"],
        track_log=True, log_names=["add_page", "page_exists"],
        asserts={"wtp.add_page(title, ns_id, body)": [
            "same_object(call_arg('page_exists', -1, 0), title)",
            "same_object(call_arg('page_exists', -1, 1), ns_id)"]},
        ensures=["logged('page_exists') == 4", "logged('add_page') <= 4", "sql_kind(-1) == 'commit'"]))
    return cs


def setup_registry(reg):
    reg.callback_contracts.update(CALLBACK_CONTRACTS)
    reg.add(Contract(target="core:Wtp.add_page", variant="callee", prop="C12", mode="value", result="none", raises=[]))
    reg.add(Contract(target="core:Wtp.page_exists", variant="callee", prop="C12", mode="value", result="bool",
                     raises=["sqlite3.ProgrammingError"]))
