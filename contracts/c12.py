"""C12 -- dump ingestion stores exactly the selected pages."""
from pyvc.vx import Contract

SELECTED = ("(namespace_id in namespace_ids) and (not title.endswith('/documentation')) and "
            "('/testcases' not in title) and ((redirect_element is not None) or "
            "(model in {'wikitext', 'Scribunto', 'json'}))")

CALLBACK_CONTRACTS = {
    "lxml_text": {"text": "lxml findtext(path, default) returns the element text as str (assumed, external)",
                  "result": "str", "may_raise": False},
    "lxml_find": {"text": "lxml find(path) returns an element or None (assumed, external)", "result": "opq",
                  "may_raise": False},
    "lxml_get": {"text": "lxml element.get(name, default) returns str (assumed, external)", "result": "str",
                 "may_raise": False},
}


def contracts():
    cs = []
    cs.append(Contract(
        target="dumpparser:parse_dump_xml", prop="C12", mode="frame",
        params={"wtp": "ctx", "dump_path": "str", "namespace_ids": "intset"},
        callbacks={"page_element.findtext": "lxml_text", "page_element.find": "lxml_find",
                   "redirect_element.get": "lxml_get"},
        track_log=True, log_names=["add_page"],
        loops={"for (_, page_element) in etree.iterparse(p.stdout if isinstance(p, subprocess.Popen) else p, tag='{*}page')": {
            "iteration_post": [
                # exactly the selected pages are stored, once
                f"logged('add_page') == (1 if ({SELECTED}) else 0)",
                # with their own title, namespace, model; text verbatim for ordinary pages, redirect target for redirects
                "implies(logged('add_page') == 1, same_object(call_arg('add_page', 0, 0), title))",
                "implies(logged('add_page') == 1, same_object(call_arg('add_page', 0, 1), namespace_id))",
                "implies(logged('add_page') == 1, same_object(call_kw('add_page', 0, 'model'), model))",
                "implies(logged('add_page') == 1 and redirect_element is None, "
                "same_object(call_kw('add_page', 0, 'body'), text) and call_kw('add_page', 0, 'redirect_to') is None)",
                "implies(logged('add_page') == 1 and redirect_element is not None, "
                "call_kw('add_page', 0, 'body') is None and "
                "same_object(call_kw('add_page', 0, 'redirect_to'), redirect_to))",
            ]}}))
    cs.append(Contract(
        target="dumpparser:add_default_templates", prop="C12", mode="frame", params={"wtp": "ctx"},
        requires=["'Template' in wtp.NAMESPACE_DATA"],
        track_log=True, log_names=["add_page", "page_exists"],
        asserts={"wtp.add_page(title, ns_id, body)": [
            "same_object(call_arg('page_exists', -1, 0), title)",
            "same_object(call_arg('page_exists', -1, 1), ns_id)"]},
        ensures=["logged('page_exists') == 4", "logged('add_page') <= 4", "sql_kind(-1) == 'commit'"]))
    # the pipeline: the dump is ingested (unless skipped) BEFORE the built-in helper templates are considered, these
    # before the analysis, and the analysis gets the caller's arguments
    cs.append(Contract(
        target="dumpparser:process_dump", prop="C12", mode="frame",
        params={"wtp": "ctx", "path": "str", "namespace_ids": "intset", "overwrite_folders": "opq",
                "skip_extract_dump": "bool", "save_pages_path": "opq", "analyze_template_func": "opq"},
        requires=["'Template' in wtp.NAMESPACE_DATA"],
        track_log=True, log_names=["parse_dump_xml", "add_default_templates", "analyze_and_overwrite_pages"],
        asserts={"add_default_templates(wtp)": [
            "logged('parse_dump_xml') == (0 if skip_extract_dump else 1)",
            "logged('analyze_and_overwrite_pages') == 0", "logged('add_default_templates') == 0"]},
        ensures=["logged('add_default_templates') == 1", "logged('analyze_and_overwrite_pages') == 1",
                 "logged('parse_dump_xml') == (0 if skip_extract_dump else 1)",
                 # (argument positions as logged: the context argument is not counted)
                 "same_object(call_arg('analyze_and_overwrite_pages', 0, 0), overwrite_folders)",
                 "same_object(call_arg('analyze_and_overwrite_pages', 0, 1), skip_extract_dump)",
                 "same_object(call_arg('analyze_and_overwrite_pages', 0, 2), analyze_template_func)",
                 "implies(not skip_extract_dump, same_object(call_arg('parse_dump_xml', 0, 0), path))",
                 "implies(not skip_extract_dump, same_object(call_arg('parse_dump_xml', 0, 1), namespace_ids))"]))
    cs.extend(overwrite_single_page_contracts())
    cs.append(template_to_body_contract())
    # a template page is stored with exactly the reduction of the body it was given; any other page verbatim
    cs.append(Contract(
        target="core:Wtp.add_page", variant="template_body", prop="C12", mode="value",
        params={"title": "str", "namespace_id": "int", "body": "str", "redirect_to": "none",
                "need_pre_expand": "bool", "model": "str"},
        requires=["memo_coherent()", "'Template' in ctx.NAMESPACE_DATA"],
        track_log=True, log_names=["_template_to_body"],
        ensures=["implies(namespace_id == ctx.NAMESPACE_DATA['Template']['id'], logged('_template_to_body') == 1)",
                 "implies(namespace_id == ctx.NAMESPACE_DATA['Template']['id'], "
                 "same_object(sql_params(0)[2], call_result('_template_to_body', 0)))",
                 "implies(namespace_id == ctx.NAMESPACE_DATA['Template']['id'], "
                 "same_object(call_arg('_template_to_body', 0, 1), body))",
                 "implies(namespace_id != ctx.NAMESPACE_DATA['Template']['id'], "
                 "logged('_template_to_body') == 0 and same_object(sql_params(0)[2], body))"],
        raises=[], result="none"))
    return cs


def analysis_pipeline_contract():
    """analyze_and_overwrite_pages (used by the C17 check): when the override files contain templates they are written
    BEFORE the analysis, which then runs unconditionally; otherwise the analysis runs unless the table has been
    analysed already; at most one analysis, with the caller's classifier; the overrides are always written (once)"""
    HAS_T = "overwrite_folders is not None and call_result('overwrite_pages', 0)"
    return Contract(
        target="dumpparser:analyze_and_overwrite_pages", prop="C17", mode="frame",
        params={"wtp": "ctx", "overwrite_folders": "opq", "skip_extract_dump": "bool", "analyze_template_func": "opq"},
        track_log=True, log_names=["overwrite_pages", "analyze_templates", "has_analyzed_templates"],
        asserts={"wtp.analyze_templates(analyze_template_func)": [
            f"implies({HAS_T}, logged('overwrite_pages') == 2)"]},
        ensures=["logged('analyze_templates') <= 1",
                 "implies(analyze_template_func is None, logged('analyze_templates') == 0)",
                 f"implies(analyze_template_func is not None and ({HAS_T}), logged('analyze_templates') == 1)",
                 f"implies(analyze_template_func is not None and not ({HAS_T}), logged('has_analyzed_templates') == 1 and "
                 "logged('analyze_templates') == (0 if call_result('has_analyzed_templates', 0) else 1))",
                 "implies(logged('analyze_templates') == 1, same_object(call_arg('analyze_templates', 0, 0), analyze_template_func))",
                 "implies(overwrite_folders is None, logged('overwrite_pages') == 0)",
                 "implies(overwrite_folders is not None, logged('overwrite_pages') == 2 and "
                 "call_arg('overwrite_pages', 0, 1) == False and call_arg('overwrite_pages', 1, 1) == True and "
                 "same_object(call_arg('overwrite_pages', 1, 0), overwrite_folders))"])


def overwrite_single_page_contracts():
    """an override entry is stored by exactly one add_page with the entry's title, body, redirect target and flag --
    and nothing is written by the probing pass (do_overwrite == False); namespace id given by the entry"""
    out = []
    # (the variant "namespace id derived from the title" is not under contract: NS_ID_BY_LOCAL_NAME.get is not modelled)
    for variant, nskind in (("ns_given", "int"),):
        ens = ["logged('add_page') == (1 if do_overwrite else 0)",
               "implies(do_overwrite, same_object(call_arg('add_page', 0, 0), title))",
               "implies(do_overwrite, same_object(call_kw('add_page', 0, 'body'), body))",
               "implies(do_overwrite, same_object(call_kw('add_page', 0, 'redirect_to'), redirect_to))",
               "implies(do_overwrite, same_object(call_kw('add_page', 0, 'need_pre_expand'), need_pre_expand))",
               "implies(do_overwrite, result == False)"]
        if nskind == "int":
            ens.append("implies(do_overwrite, same_object(call_arg('add_page', 0, 1), namespace_id))")
        out.append(Contract(
            target="dumpparser:overwrite_single_page", variant=variant, prop="C12", mode="frame",
            params={"wtp": "ctx", "title": "str", "do_overwrite": "bool", "namespace_id": nskind, "redirect_to": "optstr",
                    "need_pre_expand": "bool", "body": "optstr", "model": "str"},
            track_log=True, log_names=["add_page"], ensures=ens))
    return out


def pipeline_registry(reg):
    setup_registry(reg)
    reg.add(Contract(target="dumpparser:overwrite_pages", variant="callee", prop="C17", mode="value", result="bool", raises=[]))
    reg.add(Contract(target="core:Wtp.has_analyzed_templates", variant="callee", prop="C17", mode="value", result="bool", raises=[]))
    reg.add(Contract(target="core:Wtp.analyze_templates", variant="callee", prop="C17", mode="value", result="none", raises=[]))
    reg.add(Contract(target="core:Wtp.backup_db", variant="callee", prop="C17", mode="value", result="none", raises=[]))


COMMENT = r"(?s)<!--.*?-->"
NOINC = r"(?is)<noinclude\s*>.*?</noinclude\s*>"
NOINC_OPEN = r"(?is)<noinclude\s*>.*"
COMMENT_OPEN = r"(?s)<!--.*"
ONLY = r"(?is)<onlyinclude\s*>(.*?)</onlyinclude\s*>|<onlyinclude\s*/>"
INCONLY = r"(?is)<\s*(/\s*)?includeonly\s*(/\s*)?>"


def template_to_body_contract():
    """'templates reduced to their includable part': on every path the body goes through the five removals in
    the documented order, each applied to the result of the previous one, the <onlyinclude> scan looks at the text
    after the fourth, and what is returned is the result of the last removal (no early exit, no skipped step).
    The pattern texts themselves are pinned as drift clauses (a changed text makes the check undecided, the
    bounded tier then decides)."""
    pats = [COMMENT, NOINC, NOINC_OPEN, COMMENT_OPEN, INCONLY]
    ens = ["logged('re.sub') == 5", "logged('re.finditer') == 1",
           "same_object(result, call_result('re.sub', 4))",
           "same_object(call_arg('re.sub', 0, 2), text)",
           "same_object(call_arg('re.finditer', 0, 1), call_result('re.sub', 3))"]
    drift = [f"call_arg('re.finditer', 0, 0) == {ONLY!r}"]
    for i, p_ in enumerate(pats):
        drift.append(f"call_arg('re.sub', {i}, 0) == {p_!r}")
        ens.append(f"call_arg('re.sub', {i}, 1) == ''")
    for i in (1, 2, 3):
        ens.append(f"same_object(call_arg('re.sub', {i}, 2), call_result('re.sub', {i - 1}))")
    return Contract(target="core:Wtp._template_to_body", prop="C12", mode="frame",
                    params={"title": "str", "text": "str"}, track_log=True, log_names=["re.sub", "re.finditer"],
                    ensures=ens, drift=drift,
                    assumed=["re.sub / re.finditer are CPython's; the six pattern texts are the reference definition "
                             "of the includable part (validated against MediaWiki-style bodies by the bounded tier)"])


def setup_registry(reg):
    reg.callback_contracts.update(CALLBACK_CONTRACTS)
    reg.add(Contract(target="core:Wtp.add_page", variant="callee", prop="C12", mode="value", result="none", raises=[]))
    reg.add(Contract(target="core:Wtp.page_exists", variant="callee", prop="C12", mode="value", result="bool",
                     raises=["sqlite3.ProgrammingError"]))
