"""C13 -- selective expansion and hooks."""
from pyvc.vx import Contract

# the selection rule of the statement: a template is expanded iff it exists and
# (it is named in templates_to_expand or flagged for pre-expansion) and it is not named in
# templates_to_not_expand
PAGE = "call_result('get_page', 0)"


def contracts():
    cs = []
    variants = {
        "none_none": ({"expand_names": "none", "not_expand_names": "none"},
                      "PAGE.need_pre_expand"),
        "E_none": ({"expand_names": "strset", "not_expand_names": "none"},
                   "(name in expand_names) or PAGE.need_pre_expand"),
        "none_N": ({"expand_names": "none", "not_expand_names": "strset"},
                   "(name not in not_expand_names) and PAGE.need_pre_expand"),
        "E_N": ({"expand_names": "strset", "not_expand_names": "strset"},
                "(name not in not_expand_names) and ((name in expand_names) or PAGE.need_pre_expand)"),
    }
    for vname, (extra, rule) in variants.items():
        params = {"name": "str"}
        params.update(extra)
        rule = rule.replace("PAGE", PAGE)
        cs.append(Contract(
            target="core:Wtp.check_template_need_expand", variant=vname, prop="C13", mode="value", params=params,
            requires=["'Template' in ctx.NAMESPACE_DATA"],
            ensures=["logged('get_page') == 1",
                     f"implies({PAGE} is None, result == False)",
                     f"implies({PAGE} is not None, bool(result) == bool({rule}))"],
            raises=["sqlite3.ProgrammingError"], track_log=True, log_names=["get_page"]))
    # expand_parserfn: the two switches
    cs.append(Contract(
        target="core:Wtp.expand.expand_recurse.expand_parserfn", variant="parserfns_off", prop="C13", mode="value",
        params={"fn_name": "str", "args": "strlist"},
        free={"expand_parserfns": "const:False", "expand_invoke": "bool", "parent": "opq"},
        ensures=["logged('call_parser_function') == 0", "logged('invoke_fn') == 0",
                 "ctx.expand_stack == old(ctx.expand_stack)",
                 "implies(len(args) == 0, result == '{{' + fn_name + '}}')",
                 "implies(len(args) > 0, result == '{{' + fn_name + ':' + '|'.join(args) + '}}')"],
        raises=[], result="str", track_log=True, log_names=["call_parser_function", "invoke_fn"]))
    cs.append(Contract(
        target="core:Wtp.expand.expand_recurse.expand_parserfn", variant="invoke_off", prop="C13", mode="value",
        params={"fn_name": "str", "args": "strlist"},
        free={"expand_parserfns": "const:True", "expand_invoke": "const:False", "parent": "opq"},
        requires=["seq_len(ctx.expand_stack) >= 1"],
        ensures=["logged('invoke_fn') == 0",
                 "ctx.expand_stack == old(ctx.expand_stack)",
                 # #invoke (directly or through an alias) is re-emitted as a call; everything else is dispatched once
                 "implies(CANON == '#invoke', result == '{{#invoke:' + '|'.join(args) + '}}')",
                 "implies(CANON == '#invoke', logged('call_parser_function') == 0)",
                 "implies(CANON != '#invoke', logged('call_parser_function') == 1)"],
        lets={"CANON": "ctx.parser_function_aliases[fn_name] if fn_name in ctx.parser_function_aliases else fn_name"},
        raises=[], result="str", track_log=True, log_names=["call_parser_function", "invoke_fn"]))
    cs.append(Contract(
        target="core:Wtp.expand.expand_recurse.expand_parserfn", variant="all_on", prop="C13", mode="value",
        params={"fn_name": "str", "args": "strlist"},
        free={"expand_parserfns": "const:True", "expand_invoke": "const:True", "parent": "opq"},
        requires=["seq_len(ctx.expand_stack) >= 1"],
        ensures=["logged('invoke_fn') + logged('call_parser_function') == 1",
                 "implies(CANON == '#invoke', logged('invoke_fn') == 1)",
                 "ctx.expand_stack == old(ctx.expand_stack)"],
        lets={"CANON": "ctx.parser_function_aliases[fn_name] if fn_name in ctx.parser_function_aliases else fn_name"},
        raises=[], result="str", track_log=True, log_names=["call_parser_function", "invoke_fn"]))
    # hook discipline in the template branch of expand_recurse (frame mode, ghost call log restricted to the hooks):
    # checked at the statement that follows the hook calls, i.e. once per expanded call
    cs.append(Contract(
        target="core:Wtp.expand.expand_recurse", variant="hooks", prop="C13", mode="frame",
        params={"coded": "str", "parent": "opq", "expand_all": "bool"},
        callbacks={"template_fn": "user_template_fn", "post_template_fn": "user_post_fn",
                   "self.template_override_funcs[name]": "user_override"},
        requires=["'Template' in ctx.NAMESPACE_DATA"],
        track_log=True, log_names=["template_fn", "post_template_fn", "add_newline_to_expansion"],
        asserts={
            # the automatic-newline rule is applied to the default expansion before the post hook sees it
            "if post_template_fn is not None and t": ["logged('add_newline_to_expansion') == 1",
                                                     "logged('post_template_fn') == 0"],
            # after template_fn, before the default expansion is chosen
            "if t is None:": ["logged('template_fn') <= 1",
                              "implies(template_fn is not None, logged('template_fn') == 1)",
                              "implies(template_fn is None, logged('template_fn') == 0)",
                              "implies(logged('template_fn') == 1, same_object(call_arg('template_fn', 0, 1), ht))",
                              "logged('post_template_fn') == 0"],
            # after post_template_fn
            "assert isinstance(t, str)": ["logged('post_template_fn') <= 1", "logged('add_newline_to_expansion') == 1",
                                          "implies(post_template_fn is None, logged('post_template_fn') == 0)",
                                          # a non-None result of the post hook IS the expansion (also the empty string)
                                          "implies(logged('post_template_fn') == 1 and "
                                          "not is_none(call_result('post_template_fn', 0)), "
                                          "same_object(t, call_result('post_template_fn', 0)))",
                                          "implies(logged('post_template_fn') == 1, "
                                          "same_object(call_arg('post_template_fn', 0, 1), ht))"],
        }))
    # re-emission formatters
    for fn, (l, r) in {"_unexpanded_template": ("{{", "}}"), "_unexpanded_arg": ("{{{", "}}}"),
                       "_unexpanded_link": ("[[", "]]"), "_unexpanded_extlink": ("[", "]")}.items():
        cs.append(Contract(target="core:Wtp." + fn, prop="C13", mode="value",
                           params={"args": "strlist", "nowiki": "const:False"},
                           ensures=[f"result == {l!r} + '|'.join(args) + {r!r}"], raises=[], result="str"))
    return cs


CALLBACK_CONTRACTS = {
    "user_template_fn": {"text": "user hook template_fn(name, ht) -> Optional[str]", "result": "optstr", "may_raise": True},
    "user_post_fn": {"text": "user hook post_template_fn(name, ht, t) -> Optional[str]", "result": "optstr", "may_raise": True},
    "user_override": {"text": "template_override_funcs[name](args) -> str", "result": "str", "may_raise": True},
}


def setup_registry(reg):
    from contracts import c10
    reg.callback_contracts.update(CALLBACK_CONTRACTS)
    # callee views: memo coherence at these call sites is C10's obligation (expand never writes the table)
    reg.add(Contract(target="core:Wtp.get_page", variant="callee", prop="C13", mode="value",
                     result="optpage", raises=["sqlite3.ProgrammingError"]))
    reg.add(Contract(target="core:Wtp.check_template_need_expand", variant="callee", prop="C13", mode="value",
                     result="bool", raises=["sqlite3.ProgrammingError"]))
    reg.add(Contract(target="core:Wtp.get_page_resolve_redirect", variant="callee", prop="C13", mode="value",
                     result="optpage", raises=["sqlite3.ProgrammingError"]))
    reg.add(Contract(target="core:Wtp.expand.invoke_fn", variant="callee", prop="C13", mode="value", result="opq",
                     raises=[], assumed=["invoke_fn (Lua) is total for the purpose of the switch contract"]))
    reg.add(Contract(target="parserfns:call_parser_function", variant="callee", prop="C13", mode="value", result="str",
                     raises=[], assumed=["call_parser_function is total and returns str (C05)"]))
