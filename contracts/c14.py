"""C14 -- three views of the arguments: per-argument obligations in the expander's loop."""
from pyvc.vx import Contract
from contracts import c04


def contracts():
    return [Contract(
        target="core:Wtp.expand.expand_recurse", variant="argloop", prop="C14", mode="frame",
        params={"coded": "str", "parent": "opq", "expand_all": "bool"},
        callbacks={"template_fn": "user_template_fn", "post_template_fn": "user_post_fn",
                   "self.template_override_funcs[name]": "user_override"},
        requires=["'Template' in ctx.NAMESPACE_DATA"],
        track_log=True, log_names=["expand_recurse"],
        asserts={
            # at the store: a positional argument (no regex match) is keyed by the running counter, which was
            # incremented exactly once for it; a named one never touches the counter
            "ht[k] = arg": [
                "implies(not m2, k == num - 1)",
                "implies(not m2, same_object(arg, call_result('expand_recurse', -1)))",
                "implies(m2, derived(arg, call_result('expand_recurse', -1), 'strip'))"],
        })]


def lua_contracts():
    """make_frame's argument loop (the Lua view), per-argument obligations at the store"""
    return [Contract(
        target="luaexec:call_lua_sandbox.make_frame", prop="C14", mode="frame",
        params={"pframe": "opq", "title": "str", "args": "opq"},
        track_log=True, log_names=["warning"], merge_threshold=400,
        asserts={"frame_args[k] = (arg, m is not None)": [
            # a positional argument is keyed by the running counter, incremented once for it
            "implies(m is None, k == num - 1)",
        ]},
        loops={"for arg in args": {"invariant": [],
                                   # the counter of positional arguments moves only when a positional argument
                                   # is stored (statement of the property: numbered counting positional ones only)
                                   "iteration_post": ["implies(m is not None, num == num_at_head)"]}},
    )]


def begline_contracts():
    """BegLineDisableManager (used by the parser while it walks the arguments of a call): representation invariant
    `begline_enabled == (begline_disable_counter == 0)`, counter >= 0.  __enter__ / __exit__ keep it, so line-start
    markup inside arguments stays plain text until the OUTERMOST with-block is left."""
    inv = ["ctx.begline_disable_counter >= 0", "ctx.begline_enabled == (ctx.begline_disable_counter == 0)"]
    return [
        Contract(target="core:BegLineDisableManager.__enter__", prop="C14", mode="value", params={"self": "ctxholder"},
                 requires=list(inv),
                 ensures=inv + ["ctx.begline_disable_counter == old(ctx.begline_disable_counter) + 1"], raises=[], result="none"),
        Contract(target="core:BegLineDisableManager.__exit__", prop="C14", mode="value",
                 params={"self": "ctxholder", "exc_type": "opq", "exc_value": "opq", "trace": "opq"},
                 requires=inv + ["ctx.begline_disable_counter >= 1"],
                 ensures=inv + ["ctx.begline_disable_counter == old(ctx.begline_disable_counter) - 1"], raises=[], result="none"),
    ]


def setup_registry(reg):
    c04.setup_registry(reg)


_orig_contracts = contracts


def all_contracts():
    return _orig_contracts() + lua_contracts() + begline_contracts()
