"""C15 -- nowiki content and comments are inert: N cookies are never re-interpreted."""
from pyvc.vx import Contract

FORBIDDEN = "'expand_recurse', 'expand_args', '_encode', 'process_text', 'preprocess_text', 'expand'"
HOOKS = {"template_fn": "user_hook", "post_template_fn": "user_hook",
         "self.template_override_funcs[name]": "user_hook"}
CALLBACK_CONTRACTS = {"user_hook": {"text": "user hook", "result": "opq", "may_raise": True}}

# at the end of every iteration of the cookie loop: if the cookie kind was "N", no value derived from its
# argument tuple was handed to anything that interprets wikitext
INERT = f"implies(kind == 'N', tainted_calls('cookieargs', {FORBIDDEN}) == 0)"


def contracts():
    cs = []
    cs.append(Contract(
        target="core:Wtp.expand.expand_recurse", variant="nowiki", prop="C15", mode="frame",
        params={"coded": "str", "parent": "opq", "expand_all": "bool"}, callbacks=dict(HOOKS),
        track_log=True, log_names=["expand_recurse", "expand_args", "_encode", "process_text", "preprocess_text", "expand"],
        taint={"args": "cookieargs"},
        loops={"for m in MAGIC_RE_PATTERN.finditer(coded)": {"invariant": [INERT]}}))
    cs.append(Contract(
        target="core:Wtp.expand.expand_recurse.expand_args", variant="nowiki", prop="C15", mode="frame",
        params={"coded": "str", "argmap": "opq"},
        track_log=True, log_names=["expand_recurse", "expand_args", "_encode", "process_text", "preprocess_text", "expand"],
        taint={"args": "cookieargs"},
        loops={"for m in MAGIC_RE_PATTERN.finditer(coded)": {"invariant": [INERT]}}))
    # _finalize_expand.magic_repl: an N cookie yields "<nowiki/>" for the empty body, else nowiki_quote(body)
    cs.append(Contract(
        target="core:Wtp._finalize_expand.magic_repl", prop="C15", mode="frame", params={"m": "opq"},
        track_log=True, log_names=["nowiki_quote", "_unexpanded_template", "_unexpanded_arg", "_unexpanded_link",
                                   "_unexpanded_extlink", "expand_recurse", "_encode"],
        taint={"args": "cookieargs"},
        ensures=[f"implies(kind == 'N', tainted_calls('cookieargs', {FORBIDDEN}) == 0)",
                 "implies(kind == 'N', logged('_unexpanded_template') + logged('_unexpanded_arg') + "
                 "logged('_unexpanded_link') + logged('_unexpanded_extlink') == 0)",
                 "implies(kind == 'N', logged('nowiki_quote') <= 1)",
                 # a non-empty body is quoted exactly once here, and what is returned is that quoted text
                 "implies(kind == 'N', result == '<nowiki/>' or logged('nowiki_quote') == 1)"]))
    # parser.magic_fn: on the N branch the body is quoted and emitted as text, never tokenised again
    cs.append(Contract(
        target="parser:magic_fn", prop="C15", mode="frame", params={"ctx": "ctx", "token": "str"},
        track_log=True, log_names=["process_text", "nowiki_quote", "text_fn", "_encode", "expand"],
        taint={"args": "cookieargs"},
        ensures=["implies(kind == 'N', tainted_calls('cookieargs', 'process_text', '_encode', 'expand') == 0)",
                 "implies(kind == 'N', logged('nowiki_quote') == 1)",
                 "implies(kind == 'N', logged('process_text') == 0)"]))
    # preprocess_text._nowiki_sub_fn: the body of a nowiki pair is stored in its N cookie as written (quoting happens
    # exactly once, where the cookie is emitted: the two contracts above), flagged as nowiki
    cs.append(Contract(
        target="core:Wtp.preprocess_text._nowiki_sub_fn", prop="C15", mode="frame", params={"m": "opq"},
        track_log=True, log_names=["nowiki_quote", "_save_value", "group"],
        ensures=["logged('nowiki_quote') == 0", "logged('_save_value') == 1", "call_arg('_save_value', 0, 0) == 'N'",
                 "call_arg('_save_value', 0, 2) == True", "logged('group') == 1", "call_arg('group', 0, 0) == 1"]))
    # preprocess_text: the nowiki pairs are cut out of the text exactly as given (nothing rewrites the text before the
    # first substitution), the three substitutions are chained and the result of the last one is returned
    cs.append(Contract(
        target="core:Wtp.preprocess_text", variant="dataflow", prop="C15", mode="frame", params={"text": "str"},
        track_log=True, log_names=["re.sub"],
        ensures=["logged('re.sub') == 3",
                 "same_object(call_arg('re.sub', 0, 2), text)",
                 "same_object(call_arg('re.sub', 1, 2), call_result('re.sub', 0))",
                 "same_object(call_arg('re.sub', 2, 2), call_result('re.sub', 1))",
                 "same_object(result, call_result('re.sub', 2))",
                 "call_arg('re.sub', 2, 1) == ''"],
        drift=[f"call_arg('re.sub', {i}, 0) == {p_!r}" for i, p_ in enumerate(
            (r"(?si)<nowiki\s*>(.*?)</nowiki\s*>", r"(?si)<nowiki\s*/>", r"(?s)\n?<!--.*?-->"))],
        assumed=["re.sub is CPython's; the three pattern texts are pinned (a changed text makes the check undecided)"]))
    # nowiki_quote: total (every match of the alternation regex is a key of the map: F obligation in checks/c15.py)
    return cs


def setup_registry(reg):
    reg.callback_contracts.update(CALLBACK_CONTRACTS)
