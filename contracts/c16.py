"""C16 -- expansion path and message lists: sidecar contracts.

Ghost state: ctx.expand_stack : Seq[Str]; the five message lists.
Every function that syntactically writes the path is executed in frame mode
against the balance contract; every other function of the package gets a
syntactic frame obligation (see check_c16.py)."""
from pyvc.vx import Contract

BALANCE = dict(
    mode="frame", prop="C16", pop_guard=True,
    requires=["seq_len(ctx.expand_stack) >= 1"],           # established by start_page
    ensures=["ctx.expand_stack == old(ctx.expand_stack)"],
    raises_ensures=["prefix(old(ctx.expand_stack), ctx.expand_stack)"],
)

USER_HOOK = "user-supplied callable: leaves the expansion path as found on normal return, only extends it when raising"

CALLBACK_CONTRACTS = {
    "user_hook": {"text": USER_HOOK, "result": "opq", "may_raise": True},
    "lua_invoke": {"text": "Lua side reaches the path only through the four Python callbacks of make_frame, "
                           "each of which is under the balance contract", "result": "opq", "may_raise": True},
}

HOOKS = {"template_fn": "user_hook", "post_template_fn": "user_hook",
         "self.template_override_funcs[name]": "user_hook", "ctx.lua_invoke": "lua_invoke"}


def contracts():
    cs = []

    def bal(target, **kw):
        d = dict(BALANCE)
        d.update(kw)
        cs.append(Contract(target=target, callbacks=dict(HOOKS), **d))

    bal("core:Wtp.expand.expand_recurse", params={"coded": "str", "parent": "opq", "expand_all": "bool"})
    bal("core:Wtp.expand.expand_recurse.expand_args", params={"coded": "str", "argmap": "opq"})
    bal("core:Wtp.expand.expand_recurse.expand_parserfn", params={"fn_name": "str", "args": "opq"})
    bal("core:Wtp.expand.expand_recurse.expand_parserfn.expander", params={"arg": "str"})
    bal("core:Wtp.expand.invoke_fn", params={"invoke_args": "opq", "expander": "cb:total_str", "parent": "opq"})
    bal("core:Wtp.expand", params={"text": "str"})
    bal("luaexec:call_lua_sandbox",
        params={"invoke_args": "opq", "expander": "cb:total_str", "parent": "opq", "timeout": "opq"},
        loops={"while len(ctx.expand_stack) > stack_len": {
            "havoc_ghost": ["expand_stack"],
            "invariant": ["seq_len(ctx.expand_stack) >= stack_len",
                          "stack_len == seq_len(old(ctx.expand_stack))",
                          "prefix(old(ctx.expand_stack), ctx.expand_stack)"]}})
    for clo in ("extensionTag", "preprocess", "expandTemplate", "callParserFunction", "expand_all_templates"):
        bal("luaexec:call_lua_sandbox.make_frame." + clo)
    # message recorders: exact effect on the five lists and on the path
    lists = ["errors", "warnings", "debugs", "notes", "wiki_notices"]
    rec = {"error": "errors", "warning": "warnings", "debug": "debugs", "note": "notes",
           "wiki_notice": "wiki_notices"}
    for fn, lst in rec.items():
        ens = ["ctx.expand_stack == old(ctx.expand_stack)",
               f"len(appended(ctx.{lst}, old(ctx.{lst}))) == 1",
               f"keys_of(appended(ctx.{lst}, old(ctx.{lst}))[0]) == "
               "{'msg', 'trace', 'title', 'section', 'subsection', 'called_from', 'path'}",
               f"appended(ctx.{lst}, old(ctx.{lst}))[0]['path'] == tuple(ctx.expand_stack)",
               f"appended(ctx.{lst}, old(ctx.{lst}))[0]['msg'] == msg",
               f"appended(ctx.{lst}, old(ctx.{lst}))[0]['called_from'] == sortid",
               f"appended(ctx.{lst}, old(ctx.{lst}))[0]['title'] == (ctx.title or 'ERROR_TITLE')",
               f"appended(ctx.{lst}, old(ctx.{lst}))[0]['section'] == (ctx.section or '')",
               f"appended(ctx.{lst}, old(ctx.{lst}))[0]['subsection'] == (ctx.subsection or '')",
               f"appended(ctx.{lst}, old(ctx.{lst}))[0]['trace'] == (trace or '')"]
        for other in lists:
            if other != lst:
                ens.append(f"len(appended(ctx.{other}, old(ctx.{other}))) == 0")
        cs.append(Contract(target="core:Wtp." + fn, mode="frame", prop="C16",
                           params={"msg": "str", "trace": "str", "sortid": "str"},
                           ensures=ens, effects=["append:" + lst], may_raise=False, result="none"))
        cs.append(Contract(target="core:Wtp." + fn, variant="trace_none", mode="frame", prop="C16",
                           params={"msg": "str", "trace": "none", "sortid": "str"},
                           ensures=ens))
    cs.append(Contract(target="core:Wtp._fmt_errmsg", mode="frame", prop="C16",
                       params={"kind": "str", "msg": "str", "trace": "opq"},
                       ensures=["ctx.expand_stack == old(ctx.expand_stack)"] +
                               [f"len(appended(ctx.{l}, old(ctx.{l}))) == 0" for l in lists],
                       may_raise=False, result="none"))
    cs.append(Contract(target="core:Wtp.to_return", mode="frame", prop="C16",
                       ensures=["keys_of(result) == {'errors', 'warnings', 'debugs', 'notes', 'wiki_notices'}"] +
                               [f"result['{l}'] is ctx.{l}" for l in lists] +
                               ["ctx.expand_stack == old(ctx.expand_stack)"]))
    cs.append(Contract(target="core:Wtp.start_page", mode="frame", prop="C16",
                       params={"title": "str"}, modifies=["expand_stack"] + lists,
                       ensures=["seq_len(ctx.expand_stack) == 1", "ctx.expand_stack[0] == title"] +
                               [f"len(ctx.{l}) == 0" for l in lists] +
                               ["ctx.section is None", "ctx.subsection is None"]))
    # the location that the recorders put into their records: start_section sets the section and always clears the
    # subsection; start_subsection sets the subsection only
    cs.append(Contract(target="core:Wtp.start_section", mode="frame", prop="C16", params={"title": "str"},
                       ensures=["ctx.section == title", "ctx.subsection is None", "ctx.expand_stack == old(ctx.expand_stack)"]))
    cs.append(Contract(target="core:Wtp.start_section", variant="none", mode="frame", prop="C16", params={"title": "none"},
                       ensures=["ctx.section is None", "ctx.subsection is None"]))
    cs.append(Contract(target="core:Wtp.start_subsection", mode="frame", prop="C16", params={"title": "str"},
                       ensures=["ctx.subsection == title", "ctx.expand_stack == old(ctx.expand_stack)"]))
    cs.append(Contract(target="core:Wtp.__init__", mode="frame", prop="C16",
                       modifies=["expand_stack"] + lists,
                       ensures=["seq_len(ctx.expand_stack) == 0"] + [f"len(ctx.{l}) == 0" for l in lists]))
    return cs


def setup_registry(reg):
    """whole-package facts the executor needs: which functions may reach a
    writer of the path (effectful) and which may reach a message recorder"""
    from pyvc import effects
    infos = effects.analyze({"expand_stack"}, {"detect_expand_template_loop"})
    writers = {k for k, f in infos.items() if f.writes}
    eff = effects.effectful_closure(infos, writers, set())
    reg.effectful = eff
    rec = {"core:Wtp.error", "core:Wtp.warning", "core:Wtp.debug", "core:Wtp.note", "core:Wtp.wiki_notice"}
    logs = effects.effectful_closure(infos, rec, set())
    names = {infos[k].qual.rsplit(".", 1)[-1] for k in logs}
    # local callables (callbacks) may log as well
    reg.may_log_names = names | {"expander", "template_fn", "post_template_fn", "fn", "lua_invoke", "parser"}
    reg.callback_contracts.update(CALLBACK_CONTRACTS)
    return infos, writers, eff
