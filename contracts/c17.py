"""C17 -- template analysis marks exactly the least closed set: loop invariants
of Wtp.analyze_templates over the abstract page map (see pyvc/absmodels.py)."""
from pyvc.vx import Contract

# the inclusion relation as built by the first loop: included_map[n] contains b  <=>  b is a
# template page the classifier reports to use name n
REL_BUILT = "forall_n(lambda n: forall_t(lambda b: related(included_map, n, b) == all_of(processed(b), is_template(b), uses(n, b))))"
REL_DONE = "forall_n(lambda n: forall_t(lambda b: related(included_map, n, b) == all_of(is_template(b), uses(n, b))))"

FLAGGED_MARKED = "forall_t(lambda a: imp(all_of(flag(a), is_template(a)), marked(a)))"
STACK_MARKED = "forall_t(lambda a: imp(member(expand_stack, a), all_of(marked(a), is_template(a))))"
MARKED_TEMPL = "forall_t(lambda a: imp(marked(a), any_of(is_template(a), was_marked(a))))"
OLD_KEPT = "forall_t(lambda a: imp(was_marked(a), marked(a)))"
MARKED_IN_S = "forall_t(lambda a: imp(marked(a), in_S(a)))"
# every marked page that is no longer on the worklist has all its includers marked
CLOSED_OFF_STACK = ("forall_t(lambda a: forall_t(lambda b: imp(all_of(marked(a), is_template(a), neg(member(expand_stack, a)), "
                    "is_template(b), uses(key(a), b)), marked(b))))")
# same, except for the page being processed, whose includers are marked as far as they were visited
CLOSED_EXCEPT_CUR = ("forall_t(lambda a: forall_t(lambda b: imp(all_of(marked(a), is_template(a), neg(member(expand_stack, a)), "
                     "neg(same(a, page)), is_template(b), uses(key(a), b)), marked(b))))")
CUR_VISITED = ("forall_t(lambda b: imp(all_of(processed(b), is_template(b), uses(key(page), b)), marked(b)))")
CUR_MARKED = "all_of(marked(page), is_template(page), in_S(page), neg(member(expand_stack, page)))"

# termination measure of the worklist loop: 2 * |unmarked templates| + |worklist|
MEASURE = "2 * unmarked() + stack_len(expand_stack)"

# S: an arbitrary set containing the flagged templates and closed under "includes a member" (minimality)
S_AXIOMS = ["forall_t(lambda a: imp(all_of(flag(a), is_template(a)), in_S(a)))",
            "forall_t(lambda a: imp(was_marked(a), in_S(a)))",
            "forall_t(lambda a: forall_t(lambda b: imp(all_of(in_S(a), is_template(a), is_template(b), uses(key(a), b)), in_S(b))))"]

LEAST_FIXPOINT = [
    FLAGGED_MARKED,                                                          # contains every flagged template
    OLD_KEPT,                                                                # earlier marks are kept
    "forall_t(lambda a: forall_t(lambda b: imp(all_of(marked(a), is_template(a), is_template(b), uses(key(a), b)), marked(b))))",
    MARKED_IN_S,                                                             # contained in every closed superset
    MARKED_TEMPL,
]


def contracts():
    c = Contract(
        target="core:Wtp.analyze_templates", prop="C17", mode="value",
        params={"check_template_func": "cb:abs:classifier"},
        requires=["memo_coherent()", "'Template' in ctx.NAMESPACE_DATA"] + S_AXIOMS,
        abstract_locals={"expand_stack": "pageset", "included_map": "namerel"},
        abstract_calls={"get_all_pages": "all_template_pages", "set_template_pre_expand": "mark",
                        "get_page": "lookup"},
        loops={
            "for page in self.get_all_pages([template_ns_id])": {
                "foreach": True, "havoc_ghost": ["M", "memo_valid"],
                "invariant": ["memo_coherent()", REL_BUILT, MARKED_TEMPL, MARKED_IN_S, OLD_KEPT,
                              "forall_t(lambda a: imp(all_of(processed(a), flag(a), is_template(a)), marked(a)))",
                              "forall_t(lambda a: imp(marked(a), any_of(was_marked(a), all_of(processed(a), flag(a), is_template(a)))))",
                              "forall_t(lambda a: member(expand_stack, a) == all_of(processed(a), is_template(a), marked(a)))"]},
            "for used_template in used_templates": {
                "foreach": True,
                "invariant": [
                    "forall_n(lambda n: forall_t(lambda b: related(included_map, n, b) == any_of("
                    "all_of(processed(b), is_template(b), uses(n, b)), "
                    "all_of(same(b, page), processed_n(n), uses(n, b)))))"]},
            "while len(expand_stack) > 0": {
                "havoc_ghost": ["M", "memo_valid"],
                # termination: every iteration pops one entry and pushes one entry per page it newly marks
                "variant": MEASURE,
                "invariant": ["memo_coherent()", REL_DONE, FLAGGED_MARKED, STACK_MARKED, MARKED_TEMPL, MARKED_IN_S, OLD_KEPT,
                              CLOSED_OFF_STACK]},
            "for template_title in included_map[title_no_ns_prefix]": {
                "foreach": True, "havoc_ghost": ["M", "memo_valid"],
                "invariant": ["memo_coherent()", REL_DONE, FLAGGED_MARKED, STACK_MARKED, MARKED_TEMPL, MARKED_IN_S, OLD_KEPT,
                              CLOSED_EXCEPT_CUR, CUR_VISITED, CUR_MARKED, MEASURE + " < variant_at_head"]},
        },
        asserts={"query_str = '": LEAST_FIXPOINT},
        raises=[], result="none",
        assumed=["lookups of a stored title through get_page return that page (C10); titles of the template "
                 "namespace are compared by exact string"])
    return [c]


def setup_registry(reg):
    from contracts import c10
    c10.setup_registry(reg)
    for c in c10.contracts():
        if c.target == "core:Wtp.set_template_pre_expand":
            reg.add(c)
