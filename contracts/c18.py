"""C18 -- parser functions compute their documented values: functional
postconditions against specs/strfuncs.py (P).  #expr, #explode, formatnum are
bounded-tier only (B)."""
from pyvc.vx import Contract

PF = {"ctx": "ctx", "wtp": "ctx", "fn_name": "str", "args": "strlist", "expander": "cb:total_str"}


def contracts():
    cs = []

    def pf(name, ensures, **kw):
        cs.append(Contract(target="parserfns:" + name, prop="C18", mode="value", params=dict(PF),
                           ensures=ensures, raises=["ValueError"] if kw.pop("int_limit", False) else [],
                           result="str", **kw))
    pf("sub_fn", ["result == spec.sub(args)"])
    pf("pos_fn", ["result == spec.pos(args)"], int_limit=True)
    # the documented #rpos has two parameters; a third one is outside the envelope
    pf("rpos_fn", ["result == spec.rpos(args)"], int_limit=True, requires=["len(args) <= 2"])
    pf("len_fn", ["result == spec.length(args)"])
    pf("replace_fn", ["result == spec.replace(args)"])
    # split/join are uninterpreted sequence functions shared by code and spec: what is proved is the position /
    # limit arithmetic over the pieces
    pf("explode_fn", ["result == spec.explode(args)"], seq_split=True)
    pf("lc_fn", ["result == spec.lc(args)"])
    pf("uc_fn", ["result == spec.uc(args)"])
    pf("lcfirst_fn", ["result == spec.lcfirst(args)"])
    pf("ucfirst_fn", ["result == spec.ucfirst(args)"])
    pf("padleft_fn", ["len(result) == spec.pad_width(V, CNT, PAD)", "result.endswith(V)",
                      "implies(len(V) >= CNT, result == V)"],
       lets={"V": "spec.arg_raw(args, 0, '')", "PAD": "spec.arg_raw(args, 2, '0')",
             "CNT": "spec.to_int(spec.arg(args, 1, '0'), 0) if spec.arg(args, 1, '0').isdecimal() else 0"},
       int_limit=True)
    pf("padright_fn", ["len(result) == spec.pad_width(V, CNT, PAD)", "result.startswith(V)",
                       "implies(len(V) >= CNT, result == V)"],
       lets={"V": "spec.arg_raw(args, 0, '')", "PAD": "spec.arg_raw(args, 2, '0')",
             "CNT": "spec.to_int(spec.arg(args, 1, '0'), 0) if spec.arg(args, 1, '0').isdecimal() else 0"},
       int_limit=True)
    # #pad: the trimmed value padded to CNT characters on the side named by the fourth argument (left by default;
    # center puts the smaller half first); an empty raw third argument means "0"; a value already wide enough,
    # or an empty pad string, is returned as it is
    pf("pad_fn", ["len(result) == spec.pad_width(V, CNT, PAD)",
                  "implies(len(V) >= CNT, result == V)",
                  "implies(DIR == 'right', result.startswith(V))",
                  "implies(DIR != 'right' and DIR != 'center', result.endswith(V))"],
       # not stated: where the value sits for `center` (the slice clause result[h:h+len(V)] == V with
       # h = (CNT - len(V)) // 2 is provable but takes 4-20 s per path in z3's sequence solver -- too close to
       # the budget to be a stable verdict; the placement for `center` is therefore NOT decided by this check)
       lets={"V": "spec.arg(args, 0, '')",
             "PAD": "spec.arg_raw(args, 2, '0') if (len(args) >= 3 and args[2] != '') else '0'",
             "DIR": "spec.arg_raw(args, 3, '')",
             "CNT": "spec.to_int(spec.arg(args, 1, ''), 0) if spec.arg(args, 1, '').isdecimal() else 0"},
       int_limit=True)
    # #tag without attributes: an allowed tag wraps the expanded content, or is self-closing when that is empty
    pf("tag_fn", ["implies(len(args) <= 2 and TAG != 'nowiki' and TAG in ctx.allowed_html_tags and C == '', "
                  "result == '<' + TAG + ' />')",
                  "implies(len(args) <= 2 and TAG != 'nowiki' and TAG in ctx.allowed_html_tags and C != '', "
                  "result == '<' + TAG + '>' + C + '</' + TAG + '>')"],
       lets={"TAG": "spec.arg_raw(args, 0, '').lower()", "C": "spec.arg_raw(args, 1, '')"})
    # plural selects the singular form iff the number evaluates to 1 (expr_fn by its callee contract:
    # result == expr_value(expanded first argument))
    pf("plural_fn", ["result == (spec.arg(args, 1, '') if expr_value(spec.arg(args, 0, '0').strip().lower()) == '1' "
                     "else spec.arg(args, 2, ''))"])
    # urlencode / #urldecode: which stdlib function with which safe set per mode
    pf("urlencode_fn", ["implies(len(args) > 1 and spec.arg_raw(args, 1, '') == 'PATH', "
                        "result == urllib.parse.quote(spec.arg(args, 0, ''), safe=''))",
                        "implies(len(args) <= 1 or spec.arg_raw(args, 1, '') == 'QUERY', "
                        "result == urllib.parse.quote_plus(spec.arg(args, 0, '')))"])
    pf("urldecode_fn", ["result == urllib.parse.unquote_plus(spec.arg(args, 0, ''))"])
    return cs


def setup_registry(reg):
    reg.add(Contract(target="common:nowiki_quote", prop="C18", mode="value", result="str", raises=[],
                     assumed=["callee contract of common:nowiki_quote (total, returns str) -- owner: C15"]))
    reg.add(Contract(target="parserfns:expr_fn", prop="C18", mode="value", result="str", raises=[],
                     callee_ensures=["result == expr_value(expander(args[0]).strip().lower())"],
                     assumed=["callee contract of expr_fn: a total function of its expanded, trimmed, lower-cased "
                              "first argument (value checked only by the bounded differential)"]))
