import sys, os, time, importlib
sys.path.insert(0, os.path.dirname(os.path.abspath(__file__)))
from pyvc import vx, check, loader
modname, pat = sys.argv[1], sys.argv[2]
m = importlib.import_module('contracts.'+modname)
reg = vx.Registry()
cs = m.contracts()
for c in cs: reg.add(c)
reg.callback_contracts.update(getattr(m,'CALLBACK_CONTRACTS',{}))
if hasattr(m,'setup_registry'): m.setup_registry(reg)
os.environ['VERIF_SERIAL']='1'
sel=[c for c in cs if pat in c.target+('#'+c.variant if c.variant else '')]
res = check.run_contracts(sel, reg, 20000)
for r in res:
    print(r['target'], r['status'], r['reason'][:1500], 'nobl', len(r['obligations']), 'secs', r['secs'], 'returns', r.get('returns'))
    bad=[o for o in r['obligations'] if o['status']!='proved']
    seen=set()
    for o in bad:
        if o['ident'] in seen: continue
        seen.add(o['ident'])
        print('    ', o['status'], o['ident'][:170], '|', o['detail'][:100], 'line', o['line'], o['model'] if len(str(o['model']))<300 else '')
    import collections
    print('   kinds', dict(collections.Counter(o['kind'] for o in r['obligations'])))
    if '-v' in sys.argv:
        print('   assumptions', r['assumptions']); print('   opaque', r['opaque_ops'])
