import sys, os, time, importlib
sys.path.insert(0,'/verif')
from pyvc import vx, check, loader, smt
modname, target = sys.argv[1], sys.argv[2]
m = importlib.import_module('contracts.'+modname)
reg = vx.Registry()
cs = m.contracts()
for c in cs: reg.add(c)
if hasattr(m,'setup_registry'): m.setup_registry(reg)
reg.bind()
c=[c for c in cs if c.target+('#'+c.variant if c.variant else '')==target][0]
t0=time.time()
x=vx.X(c,reg); obs=x.run()
print('exec', time.time()-t0, len(obs), 'paths', x.npaths)
