import sys, os, time, importlib
sys.path.insert(0, os.path.dirname(os.path.abspath(__file__)))
from pyvc import vx, check, loader
modname, pat = sys.argv[1], sys.argv[2]
m = importlib.import_module('contracts.'+modname)
reg = vx.Registry()
cs = m.contracts()
for c in cs: reg.add(c)
reg.callback_contracts.update(getattr(m,'CALLBACK_CONTRACTS',{}))
if hasattr(m,'setup_registry'): m.setup_registry(reg)
os.environ['VERIF_SERIAL']='1'
sel=[c for c in cs if pat in c.target+('#'+c.variant if c.variant else '')]
res = check.run_contracts(sel, reg, int(sys.argv[3]) if len(sys.argv)>3 else 20000)
for r in res:
    for o in r['obligations']:
        if o['status'] != 'proved' or (o.get('secs') or 0) > 1:
            print(o['status'], o.get('secs'), o.get('solver'), o['ident'][-60:], o['detail'][:60])
    print(r['status'], r['secs'])
