import sys, os, importlib, json
sys.path.insert(0, os.path.dirname(os.path.abspath(__file__)))
from pyvc import vx, check
modname, pat = sys.argv[1], sys.argv[2]
m = importlib.import_module('contracts.' + modname)
reg = vx.Registry()
cs = m.contracts()
for c in cs: reg.add(c)
reg.callback_contracts.update(getattr(m, 'CALLBACK_CONTRACTS', {}))
if hasattr(m, 'setup_registry'): m.setup_registry(reg)
os.environ['VERIF_SERIAL'] = '1'
sel = [c for c in cs if pat in c.target + ('#' + c.variant if c.variant else '')]
for r in check.run_contracts(sel, reg, 20000):
    d = dict(r); obs = d.pop('obligations', [])
    print(json.dumps(d, default=str)[:1500])
    for o in obs:
        print(' ', o['status'], o['ident'][-70:], o['detail'][:80])
