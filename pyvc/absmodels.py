"""pyvc.absmodels -- abstract (ghost) views used by the C17 contracts: sets of
page titles and the inclusion relation as z3 arrays over uninterpreted sorts,
so that the loop invariants of Wtp.analyze_templates are EPR-style formulas.

  Title  stored titles of pages            Name  titles without namespace prefix
  T : Title -> Bool     pages of the template namespace (constant)
  M : Title -> Bool     pages with need_pre_expand = 1 (ghost field, changes)
  KEY : Title -> Name   title with the local 'Template:' prefix removed
  USES(n, b)            classifier reports that page b uses template name n
  FLAG(b)               classifier flags page b
  S : Title -> Bool     an arbitrary set closed under the rules (for minimality)
"""
from __future__ import annotations

import z3

from .vx import V, NONE, RAISE, OutOfReach, fresh_name, vbool, vint, vopq

Title = z3.DeclareSort("Title")
Name = z3.DeclareSort("Name")
B = z3.BoolSort()
TSet = z3.ArraySort(Title, B)
Rel = z3.ArraySort(Name, TSet)

KEY = z3.Function("KEY", Title, Name)
USES = z3.Function("USES", Name, Title, B)
FLAG = z3.Function("FLAG", Title, B)
S_ = z3.Function("S", Title, B)
T_ = z3.Const("T", TSet)
EMPTY = z3.K(Title, z3.BoolVal(False))
EMPTY_REL = z3.K(Name, EMPTY)


class HRel:
    def __init__(self, arr):
        self.arr = arr
        self.items = None

    def copy(self):
        return HRel(self.arr)


class HSet:
    """a list of pages viewed as the set of its elements plus its length (duplicates count in `n`)"""
    def __init__(self, arr, n=None):
        self.arr = arr
        self.n = z3.IntVal(0) if n is None else n
        self.items = None

    def copy(self):
        return HSet(self.arr, self.n)


# number of template pages not marked, as a function of the marked set (finite table: a natural number)
CU = z3.Function("CARD_UNMARKED", TSet, z3.IntSort())


M0 = z3.Const("M@entry", TSet)


def init_ghost(x, st):
    st.ghost["M"] = V("zarr", M0)


def make_abstract_local(x, st, kind):
    if kind == "pageset":
        return x.alloc(st, HSet(EMPTY))
    if kind == "namerel":
        return x.alloc(st, HRel(EMPTY_REL))
    if kind == "kindseq":
        return x.alloc(st, HKinds(z3.BoolVal(True), z3.IntVal(-1)))
    raise OutOfReach("abstract local kind " + kind)


def havoc_abstract(x, st, v):
    o = st.heap[v.t]
    if isinstance(o, HSet):
        n = z3.Int(fresh_name("hv_len"))
        st.pc.append(n >= 0)
        st.heap[v.t] = HSet(z3.Const(fresh_name("hv_set"), TSet), n)
    elif isinstance(o, HRel):
        st.heap[v.t] = HRel(z3.Const(fresh_name("hv_rel"), Rel))
    elif isinstance(o, HKinds):
        st.heap[v.t] = HKinds(z3.Bool(fresh_name("hv_wf")), z3.Int(fresh_name("hv_last")))


def title_of(v):
    if v.k == "page":
        return v.t["title"]
    if v.k == "title":
        return v.t
    return None


# ------------------------------------------------------------------ operations

def set_method(x, st, ref, o: HSet, name, pos, node):
    if name in ("append", "add"):
        t = title_of(pos[0])
        if t is None:
            raise OutOfReach("append of a non-page to an abstract page set")
        o.arr = z3.Store(o.arr, t, True)
        o.n = o.n + 1
        return [(st, NONE)]
    if name == "pop":
        p = z3.Const(fresh_name("popped"), Title)
        st.pc.append(z3.Select(o.arr, p))       # pop() of a non-empty list (guarded by the loop test)
        o.arr = z3.Store(o.arr, p, False)
        o.n = o.n - 1
        return [(st, V("page", {"title": p, "npe": None}))]
    raise OutOfReach("abstract set method " + name)


def set_len(x, st, o: HSet):
    st.pc.append(o.n >= 0)
    st.pc.append((o.n == 0) == (o.arr == EMPTY))
    return o.n


def rel_index(x, st, ref, o: HRel, key):
    if key.k != "name":
        raise OutOfReach("abstract relation indexed by " + key.k)
    return [(st, V("zrow", (ref.t, key.t)))]


def rel_contains(x, st, o: HRel, key):
    if key.k != "name":
        raise OutOfReach("membership of a non-name in the abstract relation")
    return z3.Select(o.arr, key.t) != EMPTY


def row_method(x, st, row, name, pos, node):
    hid, k = row.t
    o = st.heap[hid]
    if name == "add":
        t = title_of(pos[0])
        if t is None:
            raise OutOfReach("add of a non-title")
        o.arr = z3.Store(o.arr, k, z3.Store(z3.Select(o.arr, k), t, True))
        return [(st, NONE)]
    raise OutOfReach("abstract row method " + name)


def iter_element(x, st, itv, processed):
    """an element of an abstract iterable not yet processed by the enclosing
    foreach loop: (value, title term, membership formula builder)"""
    if itv.k == "zrow":
        hid, k = itv.t
        arr = z3.Select(st.heap[hid].arr, k)
        t = z3.Const(fresh_name("it"), Title)
        st.pc.append(z3.Select(arr, t))
        if processed is not None:
            st.pc.append(z3.Not(z3.Select(processed, t)))
        return V("title", t), t, (lambda s: z3.Select(s.heap[hid].arr, k))
    if itv.k == "allpages":
        t = z3.Const(fresh_name("pg"), Title)
        st.pc.append(z3.Select(T_, t))
        if processed is not None:
            st.pc.append(z3.Not(z3.Select(processed, t)))
        return V("page", {"title": t, "npe": z3.Select(st.ghost["M"].t, t)}), t, (lambda s: T_)
    if itv.k == "nset":
        n = z3.Const(fresh_name("nm"), Name)
        st.pc.append(itv.t["pred"](n))
        if processed is not None:
            st.pc.append(z3.Not(z3.Select(processed, n)))
        return V("name", n), n, (lambda s: z3.Lambda([_LN], itv.t["pred"](_LN)))
    return None


_LN = z3.Const("ln!", Name)
NSet = z3.ArraySort(Name, B)
EMPTY_N = z3.K(Name, z3.BoolVal(False))


def processed_key(itv):
    return ("processed_n", NSet, EMPTY_N, Name) if itv.k == "nset" else ("processed", TSet, EMPTY, Title)


def getattr_(x, st, v, name, node):
    if v.k == "page":
        if name == "title":
            return [(st, V("title", v.t["title"]))]
        if name == "need_pre_expand":
            npe = v.t["npe"]
            if npe is None:
                npe = z3.Bool(fresh_name("npe"))
            return [(st, vbool(npe))]
        return [(st, vopq("page." + name))]
    if v.k == "title" and name == "removeprefix":
        return [(st, V("func", ("absmethod", "removeprefix", v)))]
    if v.k == "zrow":
        return [(st, V("func", ("absmethod", "row:" + name, v)))]
    return None


# ------------------------------------------------------------------ abstract callee contracts (assumed; SQL side)

def call_abstract(x, st, handler, pos, kw, node):
    M = st.ghost["M"].t
    if handler == "all_template_pages":
        # get_all_pages([template_ns_id]): every page of the template namespace, each once
        return [(st, V("allpages", None))]
    if handler == "mark":
        # set_template_pre_expand(title): UPDATE pages SET need_pre_expand = 1 WHERE title = ?
        t = title_of(pos[0])
        if t is None:
            raise OutOfReach("set_template_pre_expand of a non-title")
        M2 = z3.If(z3.Select(T_, t), z3.Store(M, t, True), M)
        st.ghost["M"] = V("zarr", M2)
        # cardinality of the unmarked templates (the table is finite): marking an unmarked template removes one
        st.pc.append(z3.If(z3.And(z3.Select(T_, t), z3.Not(z3.Select(M, t))),
                           z3.And(CU(M2) == CU(M) - 1, CU(M) >= 1), CU(M2) == CU(M)))
        # the UPDATE makes the memo incoherent unless the real function clears it (C10 contract of
        # set_template_pre_expand: ensures memo_coherent()); taken from the registry
        c10 = x.reg.by_target.get("core:Wtp.set_template_pre_expand")
        if c10 is None or "memo_coherent()" not in c10.ensures:
            st.ghost["memo_valid"] = vbool(False)
        return [(st, NONE)]
    if handler == "lookup":
        # get_page(stored title, template ns): the row when it exists, read through the memo
        t = title_of(pos[0])
        if t is None:
            raise OutOfReach("get_page of a non-title in the abstract view")
        coherent = st.ghost.get("memo_valid", vbool(True)).t
        fresh_npe = z3.Bool(fresh_name("npe_read"))
        # coherent memo => the flag read is the table's current flag
        st.pc.append(z3.Implies(coherent, fresh_npe == z3.Select(M, t)))
        ex = z3.Select(T_, t)
        return x.choices(st, [(z3.Not(ex), NONE), (ex, V("page", {"title": t, "npe": fresh_npe}))])
    if handler == "classifier":
        # check_template_func(ctx, page) -> (used template names, flag)
        t = title_of(pos[1] if len(pos) > 1 else pos[0])
        if t is None:
            raise OutOfReach("classifier on a non-page")
        used = V("nset", {"pred": (lambda n, t=t: USES(n, t))})
        return [(st, V("tuple", (used, vbool(FLAG(t)))))]
    raise OutOfReach("abstract handler " + handler)


# ------------------------------------------------------------------ clause builtins

CLAUSE_BUILTINS = {"unmarked", "stack_len", "was_marked", "children_well_formed", "ends_with_node_or_empty", "processed_n", "forall_t", "forall_n", "imp", "all_of", "any_of", "marked", "is_template", "member",
                   "related", "uses", "flag", "key", "in_S", "processed", "same", "neg"}


def clause_builtin(x, st, name, pos, kw, node, chain):
    def tt(v):
        t = title_of(v)
        if t is None:
            raise OutOfReach(f"{name}: expected a title/page, got {v.k}")
        return t
    if name in ("children_well_formed", "ends_with_node_or_empty"):
        return [(st, vbool(kinds_clause(x, st, name, pos)))]
    if name == "imp":
        return [(st, vbool(z3.Implies(x.truth_st(pos[0], st), x.truth_st(pos[1], st))))]
    if name == "neg":
        return [(st, vbool(z3.Not(x.truth_st(pos[0], st))))]
    if name == "all_of":
        return [(st, vbool(z3.And(*[x.truth_st(p, st) for p in pos])))]
    if name == "any_of":
        return [(st, vbool(z3.Or(*[x.truth_st(p, st) for p in pos])))]
    if name == "unmarked":            # number of template pages not (yet) marked
        u = CU(st.ghost["M"].t)
        st.pc.append(u >= 0)
        return [(st, vint(u))]
    if name == "stack_len":
        o = st.heap[pos[0].t]
        st.pc.append(o.n >= 0)
        return [(st, vint(o.n))]
    if name == "was_marked":          # marked before the analysis started (ghost field at entry)
        return [(st, vbool(z3.Select(M0, tt(pos[0]))))]
    if name == "marked":
        return [(st, vbool(z3.Select(st.ghost["M"].t, tt(pos[0]))))]
    if name == "is_template":
        return [(st, vbool(z3.Select(T_, tt(pos[0]))))]
    if name == "in_S":
        return [(st, vbool(S_(tt(pos[0]))))]
    if name == "flag":
        return [(st, vbool(FLAG(tt(pos[0]))))]
    if name == "key":
        return [(st, V("name", KEY(tt(pos[0]))))]
    if name == "uses":
        return [(st, vbool(USES(pos[0].t, tt(pos[1]))))]
    if name == "member":
        o = st.heap[pos[0].t]
        return [(st, vbool(z3.Select(o.arr, tt(pos[1]))))]
    if name == "related":
        o = st.heap[pos[0].t]
        return [(st, vbool(z3.Select(z3.Select(o.arr, pos[1].t), tt(pos[2]))))]
    if name == "processed":
        p = st.ghost.get("processed")
        if p is None:
            return [(st, RAISE("ClauseError", "processed() outside a foreach loop"))]
        return [(st, vbool(z3.Select(p.t, tt(pos[0]))))]
    if name == "processed_n":
        p = st.ghost.get("processed_n")
        if p is None:
            return [(st, RAISE("ClauseError", "processed_n() outside a foreach loop over names"))]
        return [(st, vbool(z3.Select(p.t, pos[0].t)))]
    if name == "same":
        return [(st, vbool(tt(pos[0]) == tt(pos[1])))]
    raise OutOfReach("clause builtin " + name)


def quantifier(x, st, name, lam, chain):
    """forall_t(lambda a: body) / forall_n(lambda n: body): the body must be a
    fork-free boolean term (use imp/all_of/any_of/neg instead of and/or/not)"""
    import ast
    srt = Title if name == "forall_t" else Name
    params = [a.arg for a in lam.args.args]
    vars_ = [z3.Const(fresh_name("q_" + p), srt if name == "forall_t" else Name) for p in params]
    sid = next(x.scope_ids)
    st.scopes[sid] = {p: V("title" if name == "forall_t" else "name", v) for p, v in zip(params, vars_)}
    rs = x.ev(lam.body, st, (sid,) + chain)
    if len(rs) != 1 or rs[0][1].k == "raise":
        raise OutOfReach("quantifier body forks or raises; use imp/all_of/any_of/neg")
    body = x.truth_st(rs[0][1], rs[0][0])
    return [(st, vbool(z3.ForAll(vars_, body)))]


# ------------------------------------------------------------------ kind sequences (C01: children lists)
# ghost view of a list of parse-tree children: (wf, last) where
#   wf   <=> the list built so far contains no empty str and no two adjacent strs
#   last  =  kind of the last element: -1 empty list, 0 node (not a str), 1 non-empty str, 2 empty str
# every append updates the view exactly (it is a homomorphic image of the list under append)


class HKinds:
    def __init__(self, wf, last):
        self.wf = wf
        self.last = last
        self.items = None

    def copy(self):
        return HKinds(self.wf, self.last)


def kind_term(x, st, v):
    if v.k == "str":
        return z3.If(z3.Length(v.t) > 0, z3.IntVal(1), z3.IntVal(2))
    if v.k == "opq":
        return z3.If(z3.Bool(f"isinst!{v.t}!str"), z3.If(z3.Bool("truth!" + v.t), z3.IntVal(1), z3.IntVal(2)), z3.IntVal(0))
    return z3.IntVal(0)


def kinds_method(x, st, ref, o, name, pos, node):
    if name == "append":
        k = kind_term(x, st, pos[0])
        o.wf = z3.And(o.wf, k != 2, z3.Not(z3.And(o.last == 1, k == 1)))
        o.last = k
        return [(st, NONE)]
    raise OutOfReach("abstract children-list method " + name)


def kinds_clause(x, st, name, pos):
    o = st.heap[pos[0].t]
    if name == "children_well_formed":
        return o.wf
    if name == "ends_with_node_or_empty":
        return z3.Or(o.last == -1, o.last == 0)
    raise OutOfReach(name)
