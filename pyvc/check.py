"""pyvc.check -- run contracts, discharge obligations, write evidence, decide
the exit status.  Exit 0 held / 1 VIOLATION / 2 undecided / 3 checker crash."""
from __future__ import annotations

import json
import multiprocessing as mp
import os
import subprocess
import sys
import time
import traceback
from pathlib import Path

import z3

from . import loader, smt, vx

VERIF = Path(__file__).resolve().parent.parent
REPLAYS = VERIF / "replays"
EVIDENCE = VERIF / "evidence"
REPO_PY = os.environ.get("VERIF_REPO_PY", "/venv/bin/python")

_G: dict = {}


def _work(i):
    c = _G["contracts"][i]
    reg = _G["reg"]
    tmo = _G["timeout_ms"]
    t0 = time.time()
    res = {"target": c.target, "prop": c.prop, "mode": c.mode, "status": "ok", "obligations": [],
           "assumptions": [], "opaque_ops": {}, "reason": ""}
    try:
        mod, node = c._mod, c._node
        res["sha256"] = loader.sha_of(mod, node)
        res["span"] = [mod.path.name, node.lineno, node.end_lineno]
        x = vx.X(c, reg)
        obs = x.run()
        res["assumptions"] = sorted(x.assumptions)
        res["opaque_ops"] = dict(sorted(x.opaque_ops.items(), key=lambda kv: -kv[1])[:15])
        res["returns"] = getattr(x, "nreturns", 0)
        res["frame_calls"] = sorted(str(k) for k in getattr(x, "frame_calls", set()))
        # group identical (ident) obligations: all paths must be proved
        settled = {}
        for ob in obs:
            if ob.ident in settled:
                continue
            if ob.kind == "cover":
                s = z3.Solver()
                s.set("timeout", 5000)
                for p in ob.pc:
                    s.add(p)
                r = s.check()
                res["obligations"].append({
                    "ident": ob.ident, "kind": "cover", "site": ob.site, "line": 0,
                    "status": "proved" if r == z3.sat else ("vacuous" if r == z3.unsat else "unknown"),
                    "backend": "z3-5.1", "secs": 0.0, "exc": "", "detail": "", "model": {}})
                continue
            v = smt.discharge(ob.pc, ob.goal, tmo, watch=ob.watch, hints=ob.hints)
            if v.status == "refuted" and getattr(c, "candidate_refutations", False):
                # the path condition over-approximates library results (e.g. re.sub by its assumed contract only):
                # a counter-model is a candidate; it becomes a violation only if the replay reproduces a failure
                v.status = "candidate"
            if v.status != "proved":
                settled[ob.ident] = v.status     # one failing path decides the site
            res["obligations"].append({
                "ident": ob.ident, "kind": ob.kind, "site": ob.site, "line": ob.line,
                "status": v.status, "backend": v.backend, "secs": round(v.secs, 4),
                "exc": ob.exc, "detail": ob.detail + (" " + v.note if v.note else ""),
                "model": v.model if v.status != "proved" else {}})
    except vx.OutOfReach as ex:
        res["status"] = "out_of_reach"
        res["reason"] = str(ex)
    except Exception as ex:  # checker bug
        res["status"] = "crash"
        res["reason"] = f"{type(ex).__name__}: {ex}\n" + traceback.format_exc()[-1500:]
    res["secs"] = round(time.time() - t0, 3)
    return res


def run_contracts(contracts, reg, timeout_ms=20000, workers=None):
    reg.bind()
    _G["contracts"] = contracts
    _G["reg"] = reg
    _G["timeout_ms"] = timeout_ms
    smt.unicode_tables()   # compute once before forking
    workers = workers or min(16, max(1, len(contracts)))
    if len(contracts) == 1 or os.environ.get("VERIF_SERIAL"):
        return [_work(i) for i in range(len(contracts))]
    ctx = mp.get_context("fork")
    with ctx.Pool(workers) as pool:
        return pool.map(_work, range(len(contracts)), chunksize=1)


def merge_sites(results):
    """one verdict per obligation identity (all paths): refuted > unknown > proved"""
    merged = {}
    order = {"refuted": 4, "candidate": 3, "vacuous": 2, "unknown": 2, "proved": 1}
    for r in results:
        for ob in r["obligations"]:
            k = ob["ident"]
            cur = merged.get(k)
            if cur is None:
                merged[k] = dict(ob, paths=1, fn=r["target"], prop=r["prop"])
            else:
                cur["paths"] += 1
                cur["secs"] = round(cur["secs"] + ob["secs"], 4)
                if order[ob["status"]] > order[cur["status"]]:
                    keep = cur["paths"], cur["secs"]
                    merged[k] = dict(ob, paths=keep[0], secs=keep[1], fn=r["target"], prop=r["prop"])
    return merged


def load_known():
    p = VERIF / "known_findings.json"
    if p.exists():
        return json.loads(p.read_text())
    return {"findings": [], "fixed": []}


def is_known(prop, ident, witness_class, known):
    """a finding is keyed by the obligation identity (exact), or by `obligation_prefix` = function + kind + tag
    (robust against renamed locals in the site text), plus a witness class"""
    for f in known.get("findings", []):
        if f["property"] != prop or f.get("witness_class", "") not in ("", witness_class):
            continue
        if f.get("obligation") == ident:
            return f
        pre = f.get("obligation_prefix")
        if pre and ident.startswith(pre):
            return f
    return None


def write_replay(prop, name, payload):
    REPLAYS.mkdir(exist_ok=True)
    safe = "".join(ch if ch.isalnum() or ch in "-_." else "_" for ch in name)[:120]
    p = REPLAYS / f"{prop}-{safe}.json"
    p.write_text(json.dumps(payload, indent=1, default=str))
    return p


def run_repo_py(script, payload, timeout=300):
    """run a bounded-tier / replay script under the repo's interpreter"""
    env = dict(os.environ)
    env["PYTHONPATH"] = str(loader.REPO / "src") + os.pathsep + str(VERIF)
    env.setdefault("PYTHONHASHSEED", "0")
    p = subprocess.run([REPO_PY, str(VERIF / script)], input=json.dumps(payload), text=True,
                       capture_output=True, timeout=timeout, env=env)
    if p.returncode != 0:
        raise RuntimeError(f"{script} failed rc={p.returncode}: {p.stderr[-2000:]}")
    try:
        return json.loads(p.stdout.strip().splitlines()[-1])
    except Exception:
        raise RuntimeError(f"{script} produced no JSON: {p.stdout[-500:]} {p.stderr[-500:]}")


def write_evidence(prop, payload):
    EVIDENCE.mkdir(exist_ok=True)
    (EVIDENCE / f"{prop}.json").write_text(json.dumps(payload, indent=1, default=str))


STANDING_ASSUMPTIONS = [
    "pyvc (ast -> z3 translator and builtin models) is trusted; cross-checked against CPython by selftest",
    "int is mathematical; float is opaque (operations carry may-raise flags only)",
    "str is Seq(Char) over U+0000..U+2FFFF; inputs contain no code point of the package's placeholder range U+10203D..U+10FFF0",
    "strip/lower/upper, urllib.parse.quote*, html.escape/unescape are uninterpreted functions with length/substring axioms only",
    "one context object: self/ctx/wtp denote the same Wtp; no reflection (setattr/getattr/__dict__) in the package",
    "MemoryError, RecursionError, KeyboardInterrupt, signals, threads are not modelled",
    "calls are resolved by simple name to every in-package function of that name",
]


class Report:
    """collects everything a property check produces and turns it into
    stdout lines, replay files, the evidence file and the exit status"""

    def __init__(self, prop, tier, level):
        self.prop = prop
        self.tier = tier
        self.level = level
        self.t0 = time.time()
        self.seed = int(os.environ.get("VERIF_SEED", "0") or 0)
        self.results = []          # per-function results (static tier)
        self.extra_obligations = []  # dicts like merged obligations (syntactic / finite)
        self.violations = []       # (ident, replay_path, note)
        self.known_hits = []
        self.undecided = []
        self.crashes = []
        self.bounded = {}
        self.assumptions = list(STANDING_ASSUMPTIONS)
        self.explanation = ""
        self.known = load_known()
        self.assumed_validation = []

    def add_static(self, results):
        self.results.extend(results)

    def add_obligation(self, ident, kind, status, backend, secs=0.0, detail="", fn="", model=None):
        self.extra_obligations.append({"ident": ident, "kind": kind, "status": status,
                                       "backend": backend, "secs": secs, "detail": detail,
                                       "fn": fn, "site": ident, "exc": "", "model": model or {},
                                       "paths": 1, "line": 0, "prop": self.prop})

    def finish(self, replayer=None, expected_min_functions=1):
        merged = merge_sites(self.results)
        for ob in self.extra_obligations:
            merged[ob["ident"]] = ob
        nfun = 0
        for r in self.results:
            if r["status"] == "crash":
                self.crashes.append(f"{r['target']}: {r['reason']}")
            elif r["status"] == "out_of_reach":
                self.undecided.append(f"{r['target']}: out of reach: {r['reason']}")
            else:
                nfun += 1
                if not [o for o in r["obligations"] if o["kind"] != "cover"] and r["mode"] == "value":
                    pass
            for a in r["assumptions"]:
                if a not in self.assumptions:
                    self.assumptions.append(a)
        covers = [o for o in merged.values() if o["kind"] == "cover"]
        obs = [o for o in merged.values() if o["kind"] != "cover"]
        for o in covers:
            if o["status"] != "proved":
                self.undecided.append(f"vacuity guard failed: {o['ident']} ({o['status']})")
        discharged = 0
        by_backend = {}
        by_kind = {}
        solver_secs = 0.0
        for o in obs:
            by_kind[o["kind"]] = by_kind.get(o["kind"], 0) + 1
            solver_secs += o["secs"]
            if o["status"] == "proved":
                discharged += 1
                by_backend[o["backend"]] = by_backend.get(o["backend"], 0) + 1
            elif o["status"] == "refuted" and o["kind"] == "drift":
                self.undecided.append(f"contract drift (assumed external contract no longer keyed to this text): {o['ident'][:200]}")
            elif o["status"] == "candidate":
                rp = None
                if replayer is not None:
                    try:
                        rp = replayer(o)
                    except Exception as ex:
                        rp = {"reproduced": False, "error": f"{type(ex).__name__}: {ex}"}
                if rp and rp.get("reproduced"):
                    payload = {"property": self.prop, "obligation": o["ident"], "function": o["fn"], "kind": o["kind"],
                               "site": o["site"], "backend": o["backend"], "model": o["model"],
                               "detail": o["detail"], "replay": rp}
                    path = write_replay(self.prop, o["ident"], payload)
                    self.violations.append((o["ident"], str(path), ""))
                else:
                    self.undecided.append(f"obligation has a counter-model candidate (over-approximated or finite-domain) that the replay did "
                                          f"not reproduce: {o['ident'][:160]}")
            elif o["status"] == "refuted":
                wclass = o.get("exc", "")
                kf = is_known(self.prop, o["ident"], wclass, self.known)
                if kf is not None:
                    self.known_hits.append((o, kf))
                    continue
                rp = None
                note = ""
                if replayer is not None:
                    try:
                        rp = replayer(o)
                    except Exception as ex:
                        rp = {"reproduced": False, "error": f"{type(ex).__name__}: {ex}"}
                payload = {"property": self.prop, "obligation": o["ident"], "function": o["fn"],
                           "kind": o["kind"], "site": o["site"], "line": o["line"],
                           "exception": o.get("exc", ""), "backend": o["backend"],
                           "model": o["model"], "detail": o["detail"], "replay": rp}
                reproduced = bool(rp and rp.get("reproduced"))
                if not reproduced:
                    note = " no-failing-input-found"
                path = write_replay(self.prop, o["ident"], payload)
                self.violations.append((o["ident"], str(path), note))
            else:
                self.undecided.append(f"obligation undecided: {o['ident']} ({o['status']}; {o['detail'][:100]})")
        # bounded-tier failures
        for b in self.bounded.get("failures", []):
            kf = is_known(self.prop, b["ident"], b.get("witness_class", ""), self.known)
            if kf is not None:
                self.known_hits.append((b, kf))
                continue
            if b.get("witness_class") in ("drift", "harness"):
                # the text an assumed contract is keyed to was not found / the harness itself failed: undecided
                self.undecided.append(f"bounded tier: {b['ident']}: {str(b.get('what', ''))[:160]}")
                continue
            path = write_replay(self.prop, "bounded-" + b["ident"], dict(b, property=self.prop, tier="bounded"))
            self.violations.append((b["ident"], str(path), ""))
        for o, kf in self.known_hits:
            print(f"KNOWN-FINDING: property={self.prop} {kf['what']}")
        for ident, path, note in self.violations:
            print(f"VIOLATION property={self.prop} replay={path}{note}")
            print(f"  obligation: {ident}")
        for u in self.undecided:
            print(f"UNDECIDED {u}")
        for c in self.crashes:
            print(f"CHECKER-CRASH {c}")
        nob = len(obs)
        n_oor = sum(1 for r in self.results if r["status"] == "out_of_reach")
        if (nob == 0 or nfun < expected_min_functions) and nfun + n_oor < expected_min_functions:
            self.crashes.append(f"zero obligations or too few functions bound ({nfun} < {expected_min_functions})")
            print(f"CHECKER-CRASH {self.crashes[-1]}")
        level = self.level
        if level == "proof" and (discharged != nob or self.undecided):
            level = "other"
        cov = {
            "obligations": nob, "discharged": discharged,
            "checker_cmd": f"/verif/run {self.prop} {self.tier}",
            "trusted_base": ["CPython ast", "pyvc translator + builtin models", "z3 5.1.0", "cvc5 1.0.3 / z3 4.8.12 (unknowns only)"],
            "explanation": self.explanation,
            "obligations_by_kind": by_kind, "discharged_by_backend": by_backend,
            "solver_seconds": round(solver_secs, 3),
            "functions_under_contract": [
                {"target": r["target"], "mode": r["mode"], "status": r["status"], "reason": r["reason"][:300],
                 "span": r.get("span"), "sha256": r.get("sha256"),
                 "obligations": len([o for o in r["obligations"] if o["kind"] != "cover"]),
                 "paths_to_return": r.get("returns", 0), "secs": r.get("secs", 0),
                 "opaque_operations": r.get("opaque_ops", {})} for r in self.results],
            "undecided": self.undecided, "known_findings_hit": [kf["what"] for _, kf in self.known_hits],
            "assumed_contract_validation": self.assumed_validation,
            "samples": [{"ident": o["ident"], "status": o["status"], "backend": o["backend"], "secs": o["secs"]}
                        for o in obs[:6]],
        }
        if self.bounded:
            cov["bounded_tier"] = {k: v for k, v in self.bounded.items() if k != "failures"}
            cov["bounded_tier"]["failures"] = len(self.bounded.get("failures", []))
            cov["evaluations"] = int(self.bounded.get("evaluations", 0)) or 1
            cov["distinct_nontrivial"] = int(self.bounded.get("distinct_nontrivial", 0))
            cov["rule"] = self.bounded.get("rule", "")
            if self.bounded.get("samples"):
                cov["samples"] = cov["samples"] + list(self.bounded["samples"])[:6]
        ev = {"property_id": self.prop, "tier": self.tier, "seed": self.seed, "level": level,
              "coverage": cov, "assumptions": self.assumptions,
              "wall_s": round(time.time() - self.t0, 2), "violations": len(self.violations)}
        write_evidence(self.prop, ev)
        print(f"[{self.prop}] functions={nfun} obligations={nob} discharged={discharged} "
              f"violations={len(self.violations)} known={len(self.known_hits)} undecided={len(self.undecided)} "
              f"wall={ev['wall_s']}s")
        if self.violations:
            return 1
        if self.crashes:
            return 3
        if self.undecided:
            return 2
        return 0
