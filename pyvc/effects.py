"""pyvc.effects -- whole-package syntactic frame analysis.

For a set of tracked attribute names (matched by *name* on any receiver
expression: self.x, ctx.x, wtp.x, self.ctx.x ...) compute from the real
source of every module of the package:

  writers     functions that may write or alias a tracked attribute
  effectful   functions that may (transitively, calls resolved by simple name
              to every in-package function of that name) reach a writer or
              call a callable that is not resolvable to a package function
  guarded     effectful non-writers that contain try/with around an
              effectful call (these must be symbolically executed too)
"""
from __future__ import annotations

import ast
from dataclasses import dataclass, field

from . import loader

READERS = {"len", "tuple", "list", "str", "repr", "bool", "print", "enumerate",
           "reversed", "sorted", "isinstance", "format", "any", "all", "set",
           "frozenset", "id", "type"}
MUTATORS = {"append", "pop", "clear", "extend", "insert", "remove", "sort",
            "reverse", "update", "setdefault", "popitem", "add", "discard",
            "appendleft", "popleft", "__setitem__", "__delitem__", "cache_clear"}
BUILTINS = set(dir(__import__("builtins")))


@dataclass
class FnInfo:
    mod: str
    qual: str
    node: ast.AST
    writes: dict[str, list[str]] = field(default_factory=dict)   # attr -> [site src]
    reads: dict[str, list[str]] = field(default_factory=dict)
    calls: set[str] = field(default_factory=set)        # simple names called
    opaque_calls: list[str] = field(default_factory=list)  # calls of non-name callables
    has_guard: bool = False

    @property
    def key(self):
        return f"{self.mod}:{self.qual}"


def _own_nodes(fn: ast.AST):
    """nodes of fn's body excluding nested function/class definitions"""
    stack = list(ast.iter_child_nodes(fn))
    while stack:
        n = stack.pop()
        if isinstance(n, (ast.FunctionDef, ast.AsyncFunctionDef, ast.ClassDef, ast.Lambda)):
            if isinstance(n, ast.Lambda):
                # lambdas are part of the function
                stack.extend(ast.iter_child_nodes(n))
            continue
        yield n
        stack.extend(ast.iter_child_nodes(n))


def classify_attr_use(node: ast.Attribute, pure_param_fns: set[str]) -> str:
    """'read' or 'write' for an occurrence of <expr>.<tracked>"""
    par = getattr(node, "_parent", None)
    if isinstance(node.ctx, (ast.Store, ast.Del)):
        return "write"
    if isinstance(par, ast.Attribute) and par.value is node:
        # X.attr.method(...) ?
        gp = getattr(par, "_parent", None)
        if isinstance(gp, ast.Call) and gp.func is par:
            return "write" if par.attr in MUTATORS else "read"
        return "read"
    if isinstance(par, ast.Call):
        if node in par.args or any(k.value is node for k in par.keywords):
            f = par.func
            fname = f.id if isinstance(f, ast.Name) else (f.attr if isinstance(f, ast.Attribute) else "")
            if fname in READERS or fname in pure_param_fns:
                return "read"
            if isinstance(f, ast.Attribute) and fname == "format":
                return "read"
            if isinstance(f, ast.Attribute) and fname == "join":
                return "read"
            return "write"   # passed on: potential alias
    if isinstance(par, ast.Subscript) and par.value is node:
        if isinstance(par.ctx, (ast.Store, ast.Del)):
            return "write"
        return "read"
    if isinstance(par, ast.AugAssign) and par.target is node:
        return "write"
    if isinstance(par, (ast.Compare, ast.BoolOp, ast.UnaryOp, ast.If, ast.While,
                        ast.IfExp, ast.FormattedValue, ast.JoinedStr, ast.Assert)):
        return "read"
    if isinstance(par, (ast.For, ast.comprehension)) and par.iter is node:
        return "read"
    if isinstance(par, ast.Dict) or isinstance(par, (ast.Tuple, ast.List, ast.Set)):
        # stored into a container literal: alias (to_return does this for the
        # message lists) -- classified as 'alias-read'; callers decide
        return "alias"
    if isinstance(par, ast.Starred):
        return "read"
    # assignment RHS, return value, anything else: alias
    return "alias"


def analyze(tracked: set[str], pure_param_fns: set[str] = frozenset(),
            modules: list[str] | None = None) -> dict[str, FnInfo]:
    infos: dict[str, FnInfo] = {}
    for m in modules or loader.package_modules():
        mod = loader.module(m)
        for qual, fn in loader.all_functions(mod):
            fi = FnInfo(m, qual, fn)
            for n in _own_nodes(fn):
                if isinstance(n, ast.Attribute) and n.attr in tracked:
                    kind = classify_attr_use(n, pure_param_fns)
                    src = loader.norm(getattr(n, "_parent", n))[:120]
                    if kind == "read":
                        fi.reads.setdefault(n.attr, []).append(src)
                    else:
                        fi.writes.setdefault(n.attr, []).append(f"{kind}: {src}")
                if isinstance(n, ast.Call):
                    f = n.func
                    if isinstance(f, ast.Name):
                        fi.calls.add(f.id)
                    elif isinstance(f, ast.Attribute):
                        fi.calls.add(f.attr)
                    else:
                        fi.opaque_calls.append(loader.norm(f)[:80])
                if isinstance(n, (ast.Try, ast.With)):
                    fi.has_guard = True
            infos[fi.key] = fi
    return infos


def simple_name_index(infos: dict[str, FnInfo]) -> dict[str, list[str]]:
    idx: dict[str, list[str]] = {}
    for k, fi in infos.items():
        idx.setdefault(fi.qual.rsplit(".", 1)[-1], []).append(k)
    return idx


def local_callable_names(fi: FnInfo) -> set[str]:
    """names called in fi that are parameters / locals of fi or of an enclosing
    function (callbacks, table look-ups), i.e. not resolvable statically"""
    names = set()
    fn = fi.node
    chain = [fn]
    p = getattr(fn, "_parent", None)
    while p is not None:
        if isinstance(p, (ast.FunctionDef, ast.Lambda)):
            chain.append(p)
        p = getattr(p, "_parent", None)
    for f in chain:
        a = f.args
        for arg in list(a.args) + list(a.kwonlyargs) + list(a.posonlyargs):
            names.add(arg.arg)
        if a.vararg:
            names.add(a.vararg.arg)
        if a.kwarg:
            names.add(a.kwarg.arg)
        for n in _own_nodes(f):
            if isinstance(n, ast.Name) and isinstance(n.ctx, ast.Store):
                names.add(n.id)
    # nested defs are resolvable, remove them
    for f in chain:
        for n in ast.walk(f):
            if isinstance(n, ast.FunctionDef) and n is not f:
                names.discard(n.name)
    return names


def effectful_closure(infos: dict[str, FnInfo], seeds: set[str],
                      callback_names: set[str]) -> set[str]:
    """least set containing seeds, every function that calls a callable named in
    callback_names or a non-name callable, and every caller (by simple name)."""
    idx = simple_name_index(infos)
    eff = set(seeds)
    extra_calls: dict[str, set[str]] = {}
    for k, fi in infos.items():
        if fi.opaque_calls:
            eff.add(k)
        resolved, unresolved = resolve_local_callables(fi, infos)
        extra_calls[k] = resolved
        if unresolved or any(c in callback_names for c in fi.calls):
            eff.add(k)
    for k, extra in extra_calls.items():
        infos[k].calls |= extra
    changed = True
    while changed:
        changed = False
        eff_names = {infos[k].qual.rsplit(".", 1)[-1] for k in eff}
        for k, fi in infos.items():
            if k in eff:
                continue
            if fi.calls & eff_names:
                eff.add(k)
                changed = True
    return eff


def guarded_effectful_calls(fi: FnInfo, infos, eff: set[str]) -> list[str]:
    """calls inside try/with bodies of fi that may reach a writer or are opaque
    callables (so an exception carrying an extended path could be swallowed)"""
    eff_names = {infos[k].qual.rsplit(".", 1)[-1] for k in eff}
    loc = local_callable_names(fi)
    out = []
    for n in _own_nodes(fi.node):
        if isinstance(n, (ast.Try, ast.With)):
            if isinstance(n, ast.Try) and not n.handlers:
                continue        # try/finally re-raises: nothing is swallowed
            if isinstance(n, ast.With) and all(_nonswallowing_cm(i.context_expr) for i in n.items):
                continue
            body = n.body
            for st in body:
                for c in ast.walk(st):
                    if isinstance(c, (ast.FunctionDef, ast.Lambda)):
                        continue
                    if isinstance(c, ast.Call):
                        f = c.func
                        nm = f.id if isinstance(f, ast.Name) else (f.attr if isinstance(f, ast.Attribute) else None)
                        if nm is None or nm in eff_names or (isinstance(f, ast.Name) and nm in loc):
                            out.append(loader.norm(c)[:80])
    return out


def _nonswallowing_cm(e: ast.expr) -> bool:
    """context managers known not to swallow exceptions: the package's own
    BegLineDisableManager (its __exit__ returns None -- checked in
    begline_manager_ok) and file objects"""
    src = loader.norm(e)
    return src.endswith(".begline_disabled") or ".open(" in src or src.startswith("open(")


def begline_manager_ok() -> bool:
    mod = loader.module("core")
    cls = mod.top.get("BegLineDisableManager")
    if cls is None:
        return False
    for n in cls.body:
        if isinstance(n, ast.FunctionDef) and n.name == "__exit__":
            for r in ast.walk(n):
                if isinstance(r, ast.Return) and r.value is not None and not (
                        isinstance(r.value, ast.Constant) and r.value.value in (None, False)):
                    return False
            return True
    return False


REFLECTION = {"setattr", "getattr", "__dict__", "globals", "exec", "eval", "vars", "__setattr__",
              "__getattribute__", "locals", "compile", "delattr"}
REFLECTION_ALLOW = {"lua.eval", "ctx.lua.eval", "self.lua.eval"}


def reflection_sites() -> list[str]:
    out = []
    for m in loader.package_modules():
        mod = loader.module(m)
        for n in ast.walk(mod.tree):
            if isinstance(n, ast.Call):
                f = n.func
                nm = f.id if isinstance(f, ast.Name) else (f.attr if isinstance(f, ast.Attribute) else None)
                if nm == "compile" and not isinstance(f, ast.Name):
                    continue
                if nm in REFLECTION and loader.norm(f) not in REFLECTION_ALLOW and not loader.norm(f).endswith("lua.eval"):
                    out.append(f"{m}:{n.lineno}: {loader.norm(n)[:80]}")
            if isinstance(n, ast.Attribute) and n.attr in ("__dict__", "__setattr__"):
                out.append(f"{m}:{n.lineno}: {loader.norm(n)[:80]}")
    return out


# ---------------------------------------------------------------- callable provenance

def _root_function(node):
    r = node
    p = getattr(node, "_parent", None)
    while p is not None:
        if isinstance(p, (ast.FunctionDef,)):
            r = p
        p = getattr(p, "_parent", None)
    return r


def _module_tables(modname: str):
    """module-level NAME = {..: callable, ...} dict literals -> list of value exprs"""
    mod = loader.module(modname)
    out = {}
    for name, node in mod.top.items():
        val = getattr(node, "value", None)
        if isinstance(val, ast.Dict):
            out[name] = list(val.values)
    return out


def _safe_table_value(v: ast.expr, modname: str, eff_names: set[str]):
    """-> (ok, set of package function names it may call)"""
    if isinstance(v, ast.Tuple) and v.elts:
        return _safe_table_value(v.elts[0], modname, eff_names)
    if isinstance(v, ast.Lambda):
        calls = set()
        for n in ast.walk(v.body):
            if isinstance(n, ast.Call):
                f = n.func
                nm = f.id if isinstance(f, ast.Name) else (f.attr if isinstance(f, ast.Attribute) else None)
                if nm is None:
                    return False, set()
                calls.add(nm)
        return True, calls
    if isinstance(v, ast.Attribute) and isinstance(v.value, ast.Name) and v.value.id in ("math", "operator"):
        return True, set()
    if isinstance(v, ast.Name):
        if v.id in BUILTINS:
            return True, set()
        return True, {v.id}
    if isinstance(v, ast.Constant):
        return True, set()
    return False, set()


def resolve_local_callables(fi: FnInfo, infos) -> tuple[set[str], list[str]]:
    """for the local names fi calls: (names of functions they may denote,
    unresolved names).  Resolution is syntactic and conservative:
      - a parameter p: every call site of fi's function inside the enclosing
        top-level function passes a nested-def name, a module-level table or
        another resolvable parameter;
      - a local assigned from T.get(..)/T[..] with T a module-level table or a
        parameter that resolves to tables."""
    loc = local_callable_names(fi)
    called = {c for c in fi.calls if c in loc}
    if not called:
        return set(), []
    root = _root_function(fi.node)
    nested = {n.name for n in ast.walk(root) if isinstance(n, ast.FunctionDef)}
    tables = _module_tables(fi.mod)
    resolved: set[str] = set()
    unresolved: list[str] = []

    def table_callees(tname):
        out = set()
        for v in tables[tname]:
            ok, calls = _safe_table_value(v, fi.mod, set())
            if not ok:
                return None
            out |= calls
        return out

    def param_args(fn_node, pname):
        """argument expressions passed for parameter pname at every call of fn_node.name in root"""
        a = fn_node.args
        names = [x.arg for x in list(a.posonlyargs) + list(a.args)]
        if pname not in names:
            return None
        idx = names.index(pname)
        out = []
        for n in ast.walk(root):
            if isinstance(n, ast.Call) and isinstance(n.func, ast.Name) and n.func.id == fn_node.name:
                if len(n.args) > idx:
                    out.append(n.args[idx])
                else:
                    kw = [k.value for k in n.keywords if k.arg == pname]
                    if kw:
                        out.append(kw[0])
                    else:
                        defaults = a.defaults
                        di = idx - (len(names) - len(defaults))
                        if di >= 0:
                            out.append(defaults[di])
                        else:
                            return None
        return out

    def resolve_expr(e, owner_fn, depth=0):
        """-> set of callee names or None"""
        if depth > 4:
            return None
        if isinstance(e, ast.Name):
            if e.id in nested:
                return {e.id}
            if e.id in tables:
                return table_callees(e.id)
            # parameter of owner_fn?
            args = param_args(owner_fn, e.id)
            if args is not None and owner_fn is not root:
                out = set()
                for a in args:
                    r = resolve_expr(a, _enclosing_fn(owner_fn), depth + 1)
                    if r is None:
                        return None
                    out |= r
                return out
            # local assigned from table access
            for n in _own_nodes(owner_fn):
                if isinstance(n, ast.Assign) and any(isinstance(t, ast.Name) and t.id == e.id for t in n.targets):
                    return resolve_expr(n.value, owner_fn, depth + 1)
            return None
        if isinstance(e, ast.Call) and isinstance(e.func, ast.Attribute) and e.func.attr == "get":
            return resolve_expr(e.func.value, owner_fn, depth + 1)
        if isinstance(e, ast.Subscript):
            return resolve_expr(e.value, owner_fn, depth + 1)
        if isinstance(e, ast.Lambda):
            ok, calls = _safe_table_value(e, fi.mod, set())
            return calls if ok else None
        return None

    for c in sorted(called):
        r = resolve_expr(ast.Name(id=c, ctx=ast.Load()), fi.node)
        if r is None:
            unresolved.append(c)
        else:
            resolved |= r
    return resolved, unresolved


def _enclosing_fn(fn):
    p = getattr(fn, "_parent", None)
    while p is not None and not isinstance(p, ast.FunctionDef):
        p = getattr(p, "_parent", None)
    return p if p is not None else fn
