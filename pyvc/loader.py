"""pyvc.loader -- reads /repo's *current* source text and binds qualified names
to the real FunctionDef nodes.  Nothing is imported or executed here.

Extraction drops exactly: docstrings, comments (already absent from the AST),
type annotations (kept only as optional sort hints), and print()/logger.*()
expression statements.  Everything else is the code that runs.
"""
from __future__ import annotations

import ast
import hashlib
import os
from pathlib import Path

REPO = Path(os.environ.get("VERIF_REPO", "/repo"))
PKG = REPO / "src" / "wikitextprocessor"

_mod_cache: dict[str, "Module"] = {}


class Module:
    def __init__(self, name: str, path: Path):
        self.name = name
        self.path = path
        self.text = path.read_text(encoding="utf-8")
        self.tree = ast.parse(self.text, filename=str(path))
        for parent in ast.walk(self.tree):
            for ch in ast.iter_child_nodes(parent):
                ch._parent = parent  # type: ignore[attr-defined]
        # top-level names
        self.top: dict[str, ast.AST] = {}
        for st in self.tree.body:
            if isinstance(st, (ast.FunctionDef, ast.ClassDef)):
                self.top[st.name] = st
            elif isinstance(st, ast.Assign):
                for t in st.targets:
                    if isinstance(t, ast.Name):
                        self.top[t.id] = st
            elif isinstance(st, ast.AnnAssign) and isinstance(st.target, ast.Name):
                self.top[st.target.id] = st
        # imports: local name -> (module, original name)
        self.imports: dict[str, tuple[str, str]] = {}
        for st in ast.walk(self.tree):
            if isinstance(st, ast.ImportFrom):
                for a in st.names:
                    self.imports[a.asname or a.name] = (
                        ("." * st.level) + (st.module or ""), a.name)
            elif isinstance(st, ast.Import):
                for a in st.names:
                    self.imports[a.asname or a.name.split(".")[0]] = (
                        a.name if a.asname else a.name.split(".")[0], "")


SPECS = Path(__file__).resolve().parent.parent / "specs"


def module(name: str) -> Module:
    if name not in _mod_cache:
        if name.startswith("spec."):
            # lemma drivers / spec functions live in /verif/specs; they only *call* the real functions,
            # which are then executed from /repo's source
            _mod_cache[name] = Module(name, SPECS / (name[5:] + ".py"))
            _mod_cache[name].is_spec = True
        else:
            _mod_cache[name] = Module(name, PKG / (name + ".py"))
    return _mod_cache[name]


def package_modules() -> list[str]:
    return sorted(p.stem for p in PKG.glob("*.py"))


def clear_cache() -> None:
    _mod_cache.clear()


def find(target: str) -> tuple[Module, ast.AST]:
    """target = 'core:Wtp.expand.expand_recurse.expand_parserfn' -- a path of
    nested class/function names inside the module."""
    modname, _, qual = target.partition(":")
    mod = module(modname)
    node: ast.AST = mod.tree
    for part in qual.split("."):
        found = None
        # search direct body first, then any nested statement blocks (not
        # crossing into other function/class definitions)
        stack = list(getattr(node, "body", []))
        while stack:
            st = stack.pop(0)
            if isinstance(st, (ast.FunctionDef, ast.ClassDef, ast.AsyncFunctionDef)):
                if st.name == part and not _is_overload(st):
                    found = st
                    break
                continue
            for fld in ("body", "orelse", "finalbody", "handlers"):
                for sub in getattr(st, fld, []) or []:
                    if isinstance(sub, ast.ExceptHandler):
                        stack.extend(sub.body)
                    else:
                        stack.append(sub)
        if found is None:
            raise KeyError(f"cannot bind {target}: no '{part}'")
        node = found
    return mod, node


def _is_overload(fn: ast.AST) -> bool:
    for d in getattr(fn, "decorator_list", []):
        if (isinstance(d, ast.Name) and d.id == "overload") or (
                isinstance(d, ast.Attribute) and d.attr == "overload"):
            return True
    return False


def strip_docstring(body: list[ast.stmt]) -> list[ast.stmt]:
    if body and isinstance(body[0], ast.Expr) and isinstance(
            body[0].value, ast.Constant) and isinstance(body[0].value.value, str):
        return body[1:]
    return body


def is_dropped_stmt(st: ast.stmt) -> bool:
    """print(...) / logger.x(...) / sys.stdout.flush() expression statements."""
    if isinstance(st, ast.Expr) and isinstance(st.value, ast.Call):
        f = st.value.func
        if isinstance(f, ast.Name) and f.id == "print":
            return True
        if isinstance(f, ast.Attribute) and isinstance(f.value, ast.Name) and \
                f.value.id == "logger":
            return True
        if ast.unparse(f) == "sys.stdout.flush":
            return True
    return False


def source_of(mod: Module, node: ast.AST) -> str:
    return ast.get_source_segment(mod.text, node) or ""


def sha_of(mod: Module, node: ast.AST) -> str:
    return hashlib.sha256(source_of(mod, node).encode()).hexdigest()


def norm(node: ast.AST) -> str:
    """normalised source of an expression/statement header (no line numbers)"""
    return " ".join(ast.unparse(node).split())


def all_functions(mod: Module):
    """yield (qualname, node) for every function in the module"""
    def rec(node, prefix):
        for st in ast.walk(node) if False else _children_defs(node):
            q = prefix + st.name
            if isinstance(st, ast.ClassDef):
                yield from rec(st, q + ".")
            else:
                if not _is_overload(st):
                    yield q, st
                yield from rec(st, q + ".")
    yield from rec(mod.tree, "")


def _children_defs(node):
    out = []
    stack = list(getattr(node, "body", []))
    while stack:
        st = stack.pop(0)
        if isinstance(st, (ast.FunctionDef, ast.ClassDef, ast.AsyncFunctionDef)):
            out.append(st)
            continue
        for fld in ("body", "orelse", "finalbody", "handlers"):
            for sub in getattr(st, fld, []) or []:
                if isinstance(sub, ast.ExceptHandler):
                    stack.extend(sub.body)
                else:
                    stack.append(sub)
    return out
