"""pyvc.models -- semantics of operators, builtins, str methods, containers,
the context object and calls (contracts / inlining / callbacks)."""
from __future__ import annotations

import ast

import z3

from . import loader, smt
from .smt import S, I, SeqS
from .vx import (V, NONE, RAISE, HList, HDict, St, OutOfReach, fresh, fresh_name,
                 vint, vbool, vstr, vopq, GHOST_SEQ_FIELDS, GHOST_LIST_FIELDS, CTX_NAMES)

SPEC_BUILTINS = {"call_kw", "tainted_calls", "derived", "call_result", "call_arg", "same_object", "memo_coherent", "sql_count", "sql_kind", "sql_text", "sql_params", "expr_value", "parses_as_int", "prefix", "appended", "keys_of", "implies", "is_str", "is_none", "seq_len", "logged"}
BUILTIN_NAMES = {
    "call_kw", "tainted_calls", "derived", "call_result", "call_arg", "same_object", "memo_coherent", "sql_count", "sql_kind", "sql_text", "sql_params", "expr_value", "parses_as_int", "prefix", "appended", "keys_of", "implies", "is_str", "is_none", "seq_len", "logged",
    "len", "int", "str", "max", "min", "isinstance", "callable", "tuple", "list", "map",
    "range", "reversed", "sorted", "any", "all", "ord", "chr", "set", "frozenset", "dict",
    "float", "abs", "round", "repr", "bool", "enumerate", "zip", "iter", "next", "print",
    "sum", "type", "id", "hasattr", "getattr", "format", "divmod", "open",
}
BUILTIN_TYPES = {"object", "bytes", "Path", "deque", "defaultdict", "ItemsView"}
EXC_NAMES = {"ValueError", "KeyError", "IndexError", "TypeError", "Exception", "BaseException", "AttributeError",
             "ZeroDivisionError", "OverflowError", "AssertionError", "RuntimeError",
             "UnicodeDecodeError", "StopIteration", "OSError", "FileNotFoundError"}

from .models_str import str_method, format_call  # noqa: E402


# ---------------------------------------------------------------- params / ghost

def make_param(x, st: St, name: str, spec):
    if isinstance(spec, V):
        return spec
    if spec == "ctx":
        return V("ctx", "ctx")
    if spec in ("int", "bool", "str"):
        return V(spec, {"int": z3.Int, "bool": z3.Bool, "str": z3.String}[spec](name))
    if spec == "optstr":
        # caller forks: handled by contracts declaring two variants; default opaque
        return V("str", z3.String(name))
    if spec == "none":
        return NONE
    if spec == "strlist":
        return V("strlist", {"len": z3.Int(name + "!len"), "arr": z3.Array(name + "!arr", I, S),
                             "off": z3.IntVal(0), "name": name})
    if spec == "opq":
        return V("opq", "p:" + name)
    if spec == "opqtuple":
        return V("opq", "p:" + name)
    if spec == "cb:total_str":
        return V("func", ("cb", name, "total_str"))
    if isinstance(spec, str) and spec.startswith("cb:"):
        return V("func", ("cb", name, spec[3:]))
    if isinstance(spec, str) and spec.startswith("const:"):
        import ast as _a
        c = _a.literal_eval(spec[6:])
        return from_const(x, st, c)
    if spec == "float":
        return V("float", "p:" + name)
    if spec == "ctxholder":
        return V("ctxholder", name)         # an object whose attribute `ctx` is the context (e.g. a context manager)
    if spec == "kind":
        from . import pnodes
        t = z3.String(name)
        pnodes._KIND_TERMS[t.get_id()] = t
        if st is not None:
            st.pc.append(pnodes.member_of(t, pnodes.universe()))
        return V("kind", t)
    if spec == "kindset":
        # a NodeKind flag value (one member or an |-combination): the string of its members' characters
        return V("kindset_s", z3.String(name))
    if spec == "match":
        # a match object of some pattern: group(0) is an arbitrary string (facts about it go into `requires`)
        return V("match", {"pattern": None, "optional": set(), "unknown_groups": True, "groups": [V("str", z3.String(name + "!g0"))]})
    if spec == "intset":
        return V("iset", name)
    if spec == "strset":
        return V("sset", name)
    if spec == "optstrset":
        return V("sset", name)
    raise OutOfReach(f"unknown parameter kind {spec!r} for {name}")


def from_const(x, st, c):
    if isinstance(c, bool):
        return vbool(c)
    if isinstance(c, int):
        return vint(c)
    if isinstance(c, str):
        return vstr(c)
    if c is None:
        return NONE
    if isinstance(c, tuple):
        return V("tuple", tuple(from_const(x, st, i) for i in c))
    if isinstance(c, (set, frozenset)):
        return V("set", frozenset(c))
    if isinstance(c, list):
        return x.alloc(st, HList([from_const(x, st, i) for i in c]))
    if isinstance(c, dict):
        return x.alloc(st, HDict([(from_const(x, st, k), from_const(x, st, v)) for k, v in c.items()]))
    raise OutOfReach("constant kind")


def init_ghost(x, st: St):
    st.ghost["expand_stack"] = V("sseq", z3.Const("expand_stack@entry", SeqS))
    if getattr(x.c, "node_stack", ""):
        st.ghost[x.c.node_stack] = V("kstr", z3.String(x.c.node_stack + "@entry"))
    for n in GHOST_LIST_FIELDS:
        st.ghost[n] = V("glist", (n + "@entry", []))
    if x.c.abstract_calls:
        from . import absmodels
        absmodels.init_ghost(x, st)
    st.ghost["memo_valid"] = vbool(z3.Bool("memo_coherent@entry"))
    st.ghost["sql_log"] = V("sqllog", ())
    # context facts (hold after start_page): the path is non-empty
    for cl in getattr(x.c, "ctx_facts", []):
        pass


def module_constant(x, mod, name, node):
    """module-level NAME = <literal> ; only literals are evaluated"""
    if isinstance(node, ast.Dict) and node.keys and all(
            isinstance(k, ast.Constant) and isinstance(k.value, str) for k in node.keys) and all(
            isinstance(v, ast.Name) or (isinstance(v, ast.Tuple) and v.elts and isinstance(v.elts[0], ast.Name))
            for v in node.values):
        # table of functions (PARSER_FUNCTIONS): key -> function name / (function name, flag)
        tab = {}
        for k, v in zip(node.keys, node.values):
            if isinstance(v, ast.Name):
                tab[k.value] = (v.id, None)
            else:
                flag = v.elts[1].value if len(v.elts) > 1 and isinstance(v.elts[1], ast.Constant) else None
                tab[k.value] = (v.elts[0].id, flag)
        return V("ftable", {"name": f"{mod.name}.{name}", "table": tab})
    from . import pnodes
    kc = pnodes.module_constant(x, mod, name, node)
    if kc is not None:
        return kc
    try:
        c = ast.literal_eval(node)
    except Exception:
        c = None
        if isinstance(node, ast.Call) and loader.norm(node.func) in ("chr",) and False:
            pass
        return V("opq", f"modconst:{mod.name}.{name}")
    if isinstance(c, (bool, int, str, type(None))):
        return from_const(x, None, c)
    if isinstance(c, tuple) and all(isinstance(i, (bool, int, str)) for i in c):
        return from_const(x, None, c)
    if isinstance(c, (set, frozenset)) and all(isinstance(i, (int, str)) for i in c):
        return V("set", frozenset(c))
    if isinstance(c, dict):
        return V("cdict", c)
    return V("opq", f"modconst:{mod.name}.{name}")


# ---------------------------------------------------------------- comparisons

def compare(x, st, op, a: V, b: V, node):
    def res(t):
        return [(st, vbool(t))]
    opn = type(op).__name__
    if opn in ("Is", "IsNot"):
        if a.k == "gref" and b.k == "gref":
            t = z3.BoolVal(a.t == b.t)
            return res(t if opn == "Is" else z3.Not(t))
        if a.k == "none" or b.k == "none":
            other = b if a.k == "none" else a
            if other.k == "none":
                t = z3.BoolVal(True)
            elif other.k in ("opq",):
                t = z3.Bool("isnone!" + other.t)
            else:
                t = z3.BoolVal(False)
            return res(t if opn == "Is" else z3.Not(t))
        ca, cb = x.const_of(a), x.const_of(b)
        if ca is not None and cb is not None and isinstance(ca[0], bool) and isinstance(cb[0], bool):
            t = z3.BoolVal(ca[0] is cb[0])
            return res(t if opn == "Is" else z3.Not(t))
        if a.k == "bool" and b.k == "bool":
            t = a.t == b.t
            return res(t if opn == "Is" else z3.Not(t))
        if a.k == "opq" or b.k == "opq":
            cb_ = x.const_of(b)
            if a.k == "opq" and cb_ is not None and isinstance(cb_[0], bool):
                t = z3.Bool(f"is{cb_[0]}!" + a.t)
                return res(t if opn == "Is" else z3.Not(t))
            return res(z3.Bool(fresh_name("is")))
        return [(st, x.unsupported("is-comparison", node))]
    if opn in ("Eq", "NotEq"):
        t = equal(x, st, a, b)
        listy = ("ref", "strlist", "tuple", "sseq", "lib", "set", "cdict", "intlist")
        if t is None and a.k in listy and b.k in listy:
            t = z3.Bool(fresh_name("eq"))     # container equality: total, value unknown
        if t is None:
            if x.mode == "frame" or "opq" in (a.k, b.k) or "float" in (a.k, b.k):
                t = z3.Bool(fresh_name("eq"))
            else:
                raise OutOfReach(f"equality {a.k} vs {b.k}: {loader.norm(node)[:60]} (line {node.lineno})")
        return res(t if opn == "Eq" else z3.Not(t))
    if opn in ("Lt", "LtE", "Gt", "GtE"):
        ia, ib = x.as_int(a), x.as_int(b)
        if a.k in ("int", "bool") and b.k in ("int", "bool") or \
                (ia is not None and ib is not None and "float" not in (a.k, b.k)):
            t = {"Lt": ia < ib, "LtE": ia <= ib, "Gt": ia > ib, "GtE": ia >= ib}[opn]
            return res(t)
        if "float" in (a.k, b.k) and {a.k, b.k} <= {"float", "int", "bool"}:
            return res(z3.Bool(fresh_name("fcmp")))
        if a.k == "set" and b.k == "set":
            return res(z3.BoolVal({"Lt": a.t < b.t, "LtE": a.t <= b.t, "Gt": a.t > b.t, "GtE": a.t >= b.t}[opn]))
        if x.mode == "frame" or "opq" in (a.k, b.k):
            return res(z3.Bool(fresh_name("cmp")))
        if opn == "LtE" and b.k in ("set", "sset"):
            return res(z3.Bool(fresh_name("subset")))
        raise OutOfReach(f"ordering {a.k} vs {b.k} (line {node.lineno})")
    if opn in ("In", "NotIn"):
        t = contains(x, st, b, a, node)
        return res(t if opn == "In" else z3.Not(t))
    raise OutOfReach("compare op " + opn)


def equal(x, st, a: V, b: V):
    if a.k == "unbound" or b.k == "unbound":
        return z3.BoolVal(False)
    if a.k == "gref" and st is not None:
        a = st.ghost[a.t]
    if b.k == "gref" and st is not None:
        b = st.ghost[b.t]
    if a.k == "str" and b.k == "str":
        return a.t == b.t
    if a.k == "kind" and b.k == "kind":
        return a.t == b.t
    if a.k == "kstr" or b.k == "kstr":
        from . import pnodes
        ta, tb = pnodes.kstr_of(x, st, a), pnodes.kstr_of(x, st, b)
        if ta is not None and tb is not None:
            return ta == tb
        return None
    if a.k in ("int", "bool") and b.k in ("int", "bool"):
        if a.k == "bool" and b.k == "bool":
            return a.t == b.t
        return x.as_int(a) == x.as_int(b)
    if a.k == "none" and b.k == "none":
        return z3.BoolVal(True)
    if a.k == "opq" and b.k == "str":
        return x.as_str(a) == b.t
    if b.k == "opq" and a.k == "str":
        return a.t == x.as_str(b)
    if a.k == "opq" and b.k == "int":
        return x.as_int(a) == b.t
    if b.k == "opq" and a.k == "int":
        return a.t == x.as_int(b)
    if a.k == "opq" and b.k == "opq":
        if a.t == b.t:
            return z3.BoolVal(True)
        return None
    if a.k == "opq" and b.k == "none":
        return z3.Bool("isnone!" + a.t)
    if b.k == "opq" and a.k == "none":
        return z3.Bool("isnone!" + b.t)
    if a.k == "sseq" and b.k == "sseq":
        return a.t == b.t
    if a.k == "tuple" and b.k == "tuple":
        if len(a.t) != len(b.t):
            return z3.BoolVal(False)
        parts = [equal(x, st, p, q) for p, q in zip(a.t, b.t)]
        if any(p is None for p in parts):
            return None
        return z3.And(*parts) if parts else z3.BoolVal(True)
    if a.k == "set" and b.k == "set":
        return z3.BoolVal(a.t == b.t)
    if a.k == "ref" and b.k == "ref" and st is not None:
        oa, ob = st.heap[a.t], st.heap[b.t]
        if isinstance(oa, HList) and isinstance(ob, HList) and oa.items is not None and ob.items is not None:
            return equal(x, st, V("tuple", tuple(oa.items)), V("tuple", tuple(ob.items)))
        return None
    scalar = {"str", "int", "bool", "none"}
    if a.k in scalar and b.k in scalar:
        # different scalar kinds (str vs int, x vs None) are never equal
        return z3.BoolVal(False)
    if (a.k in scalar and b.k in ("tuple", "ref", "set", "func")) or (b.k in scalar and a.k in ("tuple", "ref", "set", "func")):
        return z3.BoolVal(False)
    return None


def contains(x, st, cont: V, item: V, node):
    if item.k == "kind":
        from . import pnodes
        r = pnodes.contains(x, st, cont, item)
        if r is not None:
            return r
    if cont.k == "str" and item.k == "str":
        return z3.Contains(cont.t, item.t)
    if cont.k == "str" and item.k == "opq":
        return z3.Contains(cont.t, x.as_str(item))
    if cont.k == "opq" and item.k == "str" and x.mode == "frame":
        return z3.Bool(fresh_name("in"))
    if cont.k == "tuple":
        parts = [equal(x, st, item, e) for e in cont.t]
        if all(p is not None for p in parts):
            return z3.Or(*parts) if parts else z3.BoolVal(False)
    if cont.k == "set":
        parts = [equal(x, st, item, from_const(x, st, e)) for e in sorted(cont.t, key=repr)]
        if all(p is not None for p in parts):
            return z3.Or(*parts) if parts else z3.BoolVal(False)
    if cont.k == "cdict":
        parts = [equal(x, st, item, from_const(x, st, e)) for e in cont.t.keys()]
        if all(p is not None for p in parts):
            if len(parts) > 40 and item.k == "str":
                # large literal table (PARSER_FUNCTIONS): membership as an
                # uninterpreted predicate with the table's name
                return z3.Function("in_table!" + str(len(parts)), S, z3.BoolSort())(item.t)
            return z3.Or(*parts) if parts else z3.BoolVal(False)
    if cont.k == "ref" and type(st.heap[cont.t]).__name__ == "HRel":
        from . import absmodels
        return absmodels.rel_contains(x, st, st.heap[cont.t], item)
    if cont.k == "ref":
        o = st.heap[cont.t]
        if getattr(o, "items", None) is not None:
            its = o.items if isinstance(o, HList) else [k for k, _ in o.items]
            parts = [equal(x, st, item, e) for e in its]
            if all(p is not None for p in parts):
                return z3.Or(*parts) if parts else z3.BoolVal(False)
        return z3.Bool(fresh_name("in"))
    if cont.k == "ftable":
        t = x.as_str(item)
        if t is not None:
            c = x.const_of(item)
            if c is not None:
                return z3.BoolVal(c[0] in cont.t["table"])
            return z3.Function("has!" + cont.t["name"], S, z3.BoolSort())(t)
    if cont.k == "smap":
        return smap_has(x, cont, item)
    if cont.k == "iset":
        t = x.as_int(item)
        if t is not None:
            return z3.Function("member!" + cont.t, I, z3.BoolSort())(t)
    if cont.k == "sset":
        t = x.as_str(item)
        if t is not None:
            return z3.Function("member!" + cont.t, S, z3.BoolSort())(t)
    if cont.k in ("gref", "sseq"):
        seq = st.ghost[cont.t].t if cont.k == "gref" else cont.t
        t = x.as_str(item)
        if t is not None:
            return z3.Contains(seq, z3.Unit(t))
    if cont.k == "strlist":
        t = x.as_str(item)
        if t is not None:
            j = z3.Int(fresh_name("j"))
            return z3.Exists([j], z3.And(j >= 0, j < cont.t["len"], z3.Select(cont.t["arr"], cont.t["off"] + j) == t))
    if x.mode == "frame" or cont.k == "opq":
        return z3.Bool(fresh_name("in"))
    raise OutOfReach(f"membership in {cont.k} (line {node.lineno})")


# ---------------------------------------------------------------- symbolic maps (NAMESPACE_DATA etc.)

def smap_has(x, m: V, key: V):
    t = x.as_str(key)
    if t is None:
        if key.k == "int":
            return z3.Function("has!" + m.t["name"], I, z3.BoolSort())(key.t)
        return z3.Bool(fresh_name("has"))
    return z3.Function("has!" + m.t["name"], S, z3.BoolSort())(t)


def smap_get(x, st, m: V, key: V):
    """value of m[key] as described by the map's value spec"""
    spec = m.t["value"]
    kt = x.as_str(key) if key.k != "int" else key.t
    name = m.t["name"]
    return _smap_value(x, name, spec, kt)


def _smap_value(x, name, spec, kt):
    ks = kt.sort()
    if spec == "str":
        return V("str", z3.Function("val!" + name, ks, S)(kt))
    if spec == "int":
        return V("int", z3.Function("val!" + name, ks, I)(kt))
    if isinstance(spec, dict):
        # record: a nested smap keyed by constant field names
        return V("srec", {"name": name, "fields": spec, "key": kt})
    return V("opq", f"{name}[{kt}]")


def srec_get(x, st, r: V, field: V, node):
    c = x.const_of(field)
    if c is None or c[0] not in r.t["fields"]:
        return None
    spec = r.t["fields"][c[0]]
    kt = r.t["key"]
    nm = f"{r.t['name']}.{c[0]}"
    if spec == "str":
        return V("str", z3.Function("val!" + nm, kt.sort(), S)(kt))
    if spec == "int":
        return V("int", z3.Function("val!" + nm, kt.sort(), I)(kt))
    if spec == "strlist":
        return V("strlist", {"len": z3.Function("len!" + nm, kt.sort(), I)(kt),
                             "arr": z3.Function("arr!" + nm, kt.sort(), z3.ArraySort(I, S))(kt),
                             "off": z3.IntVal(0), "name": nm})
    return V("opq", nm)


CTX_FIELDS = {
    # name -> spec ; str-valued fields are symbolic constants of the context
    "lang_code": "str", "project": "str", "title": "optstr", "section": "optstr",
    "subsection": "optstr", "quiet_output": "bool", "pre_parse": "bool",
    "begline_enabled": "bool", "begline_disable_counter": "int",
    "NAMESPACE_DATA": ("smap", "str", {"id": "int", "name": "str", "aliases": "strlist",
                                       "content": "opq", "issubject": "opq", "istalk": "opq"}),
    "LOCAL_NS_NAME_BY_ID": ("smap", "int", "str"),
    "NS_ID_BY_LOCAL_NAME": ("smap", "str", "int"),
    "LOCALIZATION_DATA": ("locdata",),
    "LOCALIZATION_ALLOWED_REVERSABLE_NUMBER_CHARS": "sset",
    "allowed_html_tags": ("smap", "str", "opq"),
    "parser_function_aliases": ("smap", "str", "str"),
    "template_override_funcs": ("smap", "str", "opq"),
}


def ctx_field(x, st: St, name: str, node):
    if name in GHOST_SEQ_FIELDS or name in GHOST_LIST_FIELDS or name == getattr(x.c, "node_stack", None):
        return V("gref", name)
    ov = st.ghost.get("field:" + name)
    if ov is not None:
        return ov
    spec = CTX_FIELDS.get(name)
    if spec is None:
        return None
    if spec == "str":
        return V("str", z3.String("ctx." + name))
    if spec == "bool":
        return V("bool", z3.Bool("ctx." + name))
    if spec == "int":
        return V("int", z3.Int("ctx." + name))
    if spec == "optstr":
        return V("optfield", name)
    if spec == "sset":
        return V("sset", "ctx." + name)
    if isinstance(spec, tuple) and spec[0] == "smap":
        return V("smap", {"name": "ctx." + name, "key": spec[1], "value": spec[2]})
    if isinstance(spec, tuple) and spec[0] == "locdata":
        return V("locdata", None)
    return None


# ---------------------------------------------------------------- arithmetic / concatenation

def binop(x, st, op, a: V, b: V, node, inplace=False):
    opn = type(op).__name__
    if a.k in ("kind", "kindset") or b.k in ("kind", "kindset"):
        from . import pnodes
        r = pnodes.binop(x, st, opn, a, b)
        if r is not None:
            return [(st, r)]
    if a.k == "gref":
        a = st.ghost[a.t]
    if b.k == "gref":
        b = st.ghost[b.t]
    if opn == "Add":
        if a.k == "str" and b.k == "str":
            return [(st, vstr(z3.Concat(a.t, b.t)))]
        if a.k in ("int", "bool") and b.k in ("int", "bool"):
            return [(st, vint(x.as_int(a) + x.as_int(b)))]
        if a.k == "tuple" and b.k == "tuple":
            return [(st, V("tuple", a.t + b.t))]
        if a.k == "str" and b.k == "opq" or a.k == "opq" and b.k == "str":
            if x.mode == "frame":
                return [(st, vstr(z3.Concat(x.as_str(a), x.as_str(b))))]
        if "kstr" in (a.k, b.k) and not inplace:
            from . import pnodes
            ta, tb = pnodes.kstr_of(x, st, a), pnodes.kstr_of(x, st, b)
            if ta is not None and tb is not None:
                return [(st, V("kstr", z3.Concat(ta, tb)))]
        if "sseq" in (a.k, b.k) and not inplace:
            sa, sb = to_sseq(x, st, a), to_sseq(x, st, b)
            if sa is not None and sb is not None:
                return [(st, V("sseq", z3.Concat(sa.t, sb.t)))]
        if a.k == "ref" and b.k == "ref":
            oa, ob = st.heap[a.t], st.heap[b.t]
            if isinstance(oa, HList) and isinstance(ob, HList):
                if inplace:
                    oa.items = None if (oa.items is None or ob.items is None) else oa.items + ob.items
                    return [(st, V("inplace-done"))]
                if oa.items is not None and ob.items is not None:
                    return [(st, x.alloc(st, HList(oa.items + ob.items)))]
                return [(st, x.alloc(st, HList(None, oa.elem)))]
        if a.k == "strlist" or b.k == "strlist" or a.k == "ref" or b.k == "ref":
            # list concatenation with unknown parts
            return [(st, x.alloc(st, HList(None, "str" if "strlist" in (a.k, b.k) else "opq")))]
        if "float" in (a.k, b.k) and {a.k, b.k} <= {"float", "int", "bool"}:
            return [(st, fresh("float"))]
        if a.k == "tuple" and b.k == "opq" or a.k == "opq" and b.k == "tuple":
            return [(st, vopq("tupcat"))]
    if opn == "Mult" and ((a.k in ("strlist", "ref", "tuple") and b.k in ("int", "bool")) or
                          (b.k in ("strlist", "ref", "tuple") and a.k in ("int", "bool"))):
        return [(st, x.alloc(st, HList(None, "str" if "strlist" in (a.k, b.k) else "opq")))]
    if x.mode == "frame" and opn in ("Add", "Sub") and {a.k, b.k} == {"int", "opq"}:
        # integer arithmetic with an opaque operand (a counter that was havoc'ed): keep the relation
        ia, ib = x.as_int(a), x.as_int(b)
        return [(st, vint(ia + ib if opn == "Add" else ia - ib))]
    if opn in ("Sub", "Mult") and a.k in ("int", "bool") and b.k in ("int", "bool"):
        ia, ib = x.as_int(a), x.as_int(b)
        return [(st, vint(ia - ib if opn == "Sub" else ia * ib))]
    if opn == "Mult" and ((a.k == "str" and b.k in ("int", "bool")) or (b.k == "str" and a.k in ("int", "bool"))):
        s_, n = (a, b) if a.k == "str" else (b, a)
        r = fresh("str", "rep")
        nt = x.as_int(n)
        st.pc.append(z3.Length(r.t) == z3.If(nt > 0, z3.Length(s_.t) * nt, 0))
        st.pc.append(z3.Implies(nt == 1, r.t == s_.t))
        st.pc.append(z3.Implies(nt > 0, z3.PrefixOf(s_.t, r.t)))
        return [(st, r)]
    if opn in ("FloorDiv", "Mod") and a.k in ("int", "bool") and b.k in ("int", "bool"):
        ia, ib = x.as_int(a), x.as_int(b)

        def val(s):
            q = fresh("int", "q")
            r = fresh("int", "r")
            # floor semantics: a = b*q + r, 0<=r<b (b>0) or b<r<=0 (b<0)
            s.pc.append(ia == ib * q.t + r.t)
            s.pc.append(z3.If(ib > 0, z3.And(r.t >= 0, r.t < ib), z3.And(r.t <= 0, r.t > ib)))
            return [(s, q if opn == "FloorDiv" else r)]
        return x.check_v(st, ib != 0, "ZeroDivisionError", node, val)
    if opn == "Mod" and a.k == "str":
        return [(st, fresh("str", "pct"))]
    if opn in ("Sub", "Mult", "Div", "Pow", "Mod", "FloorDiv") and {a.k, b.k} <= {"float", "int", "bool"}:
        if x.mode == "value" and opn in ("Div", "Mod", "FloorDiv"):
            return x.check_v(st, z3.Bool(fresh_name("divisor_nonzero")), "ZeroDivisionError", node,
                             lambda s: [(s, fresh("float"))])
        if x.mode == "value" and opn in ("Pow",):
            return x.check_v(st, z3.Bool(fresh_name("pow_in_range")), "OverflowError", node,
                             lambda s: [(s, fresh("float"))])
        return [(st, fresh("float"))]
    if opn == "BitOr" and a.k == "set" and b.k == "set":
        return [(st, V("set", a.t | b.t))]
    if opn == "Div" and a.k == "mod" or a.k == "path":
        return [(st, V("path", fresh_name("path")))]
    if "lib" in (a.k, b.k):
        x.assumptions.add("arithmetic/path operators on library objects (datetime, pathlib) assumed total")
        return [(st, V("lib", "binop"))]
    if x.mode == "frame" or "opq" in (a.k, b.k):
        x.note_opaque("binop " + opn)
        return [(st, vopq("bin"))]
    raise OutOfReach(f"binop {opn} on {a.k},{b.k}: {loader.norm(node)[:60]} (line {node.lineno})")


# ---------------------------------------------------------------- indexing / slicing

def _norm_slice_bound(v, L, default):
    if v is None or v.k == "none":
        return default
    t = v.t
    return z3.If(t < 0, z3.If(L + t < 0, 0, L + t), z3.If(t > L, L, t))


def slice_(x, st, a: V, lo, hi, step, node):
    if a.k == "gref":
        a = st.ghost[a.t]
    if step is not None and step.k != "none":
        if x.mode == "frame":
            return [(st, vopq("slice"))]
        if a.k == "str":
            return [(st, fresh("str", "stepslice"))]
        raise OutOfReach("slice with step")
    for bnd in (lo, hi):
        if bnd is not None and bnd.k not in ("int", "none", "bool"):
            if x.mode == "frame" or bnd.k == "opq":
                return [(st, fresh("str", "sl") if a.k == "str" else vopq("slice"))]
            raise OutOfReach(f"slice bound kind {bnd.k}")
    if a.k == "str":
        L = z3.Length(a.t)
        l = _norm_slice_bound(lo, L, z3.IntVal(0))
        h = _norm_slice_bound(hi, L, L)
        return [(st, vstr(z3.SubString(a.t, l, z3.If(h > l, h - l, 0))))]
    if a.k == "sseq":
        L = z3.Length(a.t)
        l = _norm_slice_bound(lo, L, z3.IntVal(0))
        h = _norm_slice_bound(hi, L, L)
        return [(st, V("sseq", z3.SubSeq(a.t, l, z3.If(h > l, h - l, 0))))]
    if a.k == "kstr":
        L = z3.Length(a.t)
        l = _norm_slice_bound(lo, L, z3.IntVal(0))
        h = _norm_slice_bound(hi, L, L)
        return [(st, V("kstr", z3.SubString(a.t, l, z3.If(h > l, h - l, 0))))]
    if a.k == "strlist":
        L = a.t["len"]
        l = _norm_slice_bound(lo, L, z3.IntVal(0))
        h = _norm_slice_bound(hi, L, L)
        return [(st, V("strlist", {"len": z3.If(h > l, h - l, 0), "arr": a.t["arr"],
                                   "off": a.t["off"] + l, "name": a.t["name"] + "[:]"}))]
    if a.k == "tuple":
        cl = x.const_of(lo) if lo is not None else (None,)
        ch = x.const_of(hi) if hi is not None else (None,)
        if cl is not None and ch is not None:
            return [(st, V("tuple", a.t[cl[0]:ch[0]]))]
    if a.k == "ref":
        o = st.heap[a.t]
        if isinstance(o, HList):
            cl = x.const_of(lo) if lo is not None else (None,)
            ch = x.const_of(hi) if hi is not None else (None,)
            if o.items is not None and cl is not None and ch is not None:
                return [(st, x.alloc(st, HList(o.items[cl[0]:ch[0]])))]
            n = HList(None, o.elem if o.items is None else x._elem_kind(o.items))
            if o.items is None and all(b is None or b.k in ("int", "none", "bool") for b in (lo, hi)):
                L = o.sym_len()
                st.pc.append(L >= o.minlen)
                l = _norm_slice_bound(lo, L, z3.IntVal(0))
                h = _norm_slice_bound(hi, L, L)
                n.length = z3.If(h > l, h - l, 0)
            return [(st, x.alloc(st, n))]
    if a.k == "opq" or x.mode == "frame":
        return [(st, vopq("slice", a.tags))]
    raise OutOfReach(f"slice of {a.k} (line {node.lineno})")


def index(x, st, a: V, i: V, node):
    if a.k in ("kinddict", "leveltab"):
        from . import pnodes
        return pnodes.table_index(x, st, a, i, node)
    if a.k == "gref" and a.t == getattr(x.c, "node_stack", None):
        from . import pnodes
        return pnodes.index(x, st, a.t, i, node)
    if a.k == "gref":
        a = st.ghost[a.t]
    if a.k == "str" and i.k in ("int", "bool"):
        it = x.as_int(i)
        L = z3.Length(a.t)
        idx = z3.If(it < 0, L + it, it)
        return x.check_v(st, z3.And(-L <= it, it < L), "IndexError", node,
                         lambda s: [(s, vstr(z3.SubString(a.t, idx, 1)))])
    if a.k == "strlist" and i.k in ("int", "bool"):
        it = x.as_int(i)
        L = a.t["len"]
        idx = z3.If(it < 0, L + it, it)
        return x.check_v(st, z3.And(-L <= it, it < L), "IndexError", node,
                         lambda s: [(s, vstr(z3.Select(a.t["arr"], a.t["off"] + idx)))])
    if a.k == "sseq" and i.k in ("int", "bool"):
        it = x.as_int(i)
        L = z3.Length(a.t)
        idx = z3.If(it < 0, L + it, it)
        return x.check_v(st, z3.And(-L <= it, it < L), "IndexError", node,
                         lambda s: [(s, vstr(seq_nth(a.t, idx)))])
    if a.k == "tuple":
        c = x.const_of(i)
        if c is not None and isinstance(c[0], int):
            if -len(a.t) <= c[0] < len(a.t):
                return [(st, a.t[c[0]])]
            return x.check_v(st, z3.BoolVal(False), "IndexError", node, lambda s: [(s, vopq())])
        if i.k == "int" and a.t and all(e.k == a.t[0].k and e.k in ("int", "str") for e in a.t):
            n = len(a.t)
            it = i.t
            idx = z3.If(it < 0, n + it, it)

            def val(s):
                r = fresh(a.t[0].k, "tupidx")
                for j, e in enumerate(a.t):
                    s.pc.append(z3.Implies(idx == j, r.t == e.t))
                return [(s, r)]
            return x.check_v(st, z3.And(-n <= it, it < n), "IndexError", node, val)
    if a.k == "ref" and type(st.heap[a.t]).__name__ == "HRel":
        from . import absmodels
        return absmodels.rel_index(x, st, a, st.heap[a.t], i)
    if a.k == "ref":
        o = st.heap[a.t]
        if isinstance(o, HList):
            c = x.const_of(i)
            if o.items is not None and c is not None and isinstance(c[0], int):
                if -len(o.items) <= c[0] < len(o.items):
                    return [(st, o.items[c[0]])]
                return x.check_v(st, z3.BoolVal(False), "IndexError", node, lambda s: [(s, vopq())])
            if o.items is not None and i.k == "int":
                n = len(o.items)
                kinds = {e.k for e in o.items}
                it = i.t
                idx = z3.If(it < 0, n + it, it)
                if len(kinds) == 1 and next(iter(kinds)) in ("str", "int"):
                    k0 = next(iter(kinds))

                    def val(s):
                        r = fresh(k0, "lstidx")
                        for j, e in enumerate(o.items):
                            s.pc.append(z3.Implies(idx == j, r.t == e.t))
                        return [(s, r)]
                    return x.check_v(st, z3.And(-n <= it, it < n), "IndexError", node, val)
            if x.mode == "value" and o.items is None and i.k in ("int", "bool"):
                it = x.as_int(i)
                L = o.sym_len()
                st.pc.append(L >= o.minlen)
                idx = z3.If(it < 0, L + it, it)
                if o.elem == "str":
                    val = lambda s: [(s, vstr(z3.Select(o.sym_arr(), idx)))]
                else:
                    ek = o.elem
                    val = lambda s: [(s, fresh(ek if ek in ("str", "int", "bool") else "opq", "el"))]
                return x.check_v(st, z3.And(-L <= it, it < L), "IndexError", node, val)
            if x.mode == "value":
                return x.check_v(st, z3.Bool(fresh_name("idx_in_range")), "IndexError", node,
                                 lambda s: [(s, vopq("el"))])
            return [(st, vopq("el"))]
        if isinstance(o, HDict):
            c = x.const_of(i)
            if o.items is not None and c is not None:
                for k, v in reversed(o.items):
                    ck = x.const_of(k)
                    if ck is not None and ck == c and type(ck[0]) is type(c[0]):
                        return [(st, v)]
                if all(x.const_of(k) is not None for k, _ in o.items):
                    return x.check_v(st, z3.BoolVal(False), "KeyError", node, lambda s: [(s, vopq())])
            if x.mode == "value":
                return x.check_v(st, z3.Bool(fresh_name("key_present")), "KeyError", node,
                                 lambda s: [(s, vopq("dv"))])
            return [(st, vopq("dv"))]
    if a.k == "smap":
        has = smap_has(x, a, i)
        return x.check_v(st, has, "KeyError", node, lambda s: [(s, smap_get(x, s, a, i))])
    if a.k == "srec":
        r = srec_get(x, st, a, i, node)
        if r is not None:
            return [(st, r)]
        return x.check_v(st, z3.BoolVal(False), "KeyError", node, lambda s: [(s, vopq())])
    if a.k == "locdata":
        c = x.const_of(i)
        if c is not None:
            if c[0] in ("grouping_separator", "decimal_point"):
                return [(st, vstr(z3.String("ctx.LOCALIZATION_DATA." + c[0])))]
            if c[0] == "grouping_method":
                return [(st, V("intlist", "ctx.LOCALIZATION_DATA.grouping_method"))]
        return x.check_v(st, z3.BoolVal(False), "KeyError", node, lambda s: [(s, vopq())])
    if a.k == "intlist" and i.k == "int":
        L = z3.Int("len!" + a.t)
        arr = z3.Array("arr!" + a.t, I, I)
        idx = z3.If(i.t < 0, L + i.t, i.t)
        st.pc.append(L >= 0)
        return x.check_v(st, z3.And(-L <= i.t, i.t < L), "IndexError", node,
                         lambda s: [(s, vint(z3.Select(arr, idx)))])
    if a.k == "cdict":
        c = x.const_of(i)
        if c is not None:
            if c[0] in a.t:
                try:
                    return [(st, from_const(x, st, a.t[c[0]]))]
                except OutOfReach:
                    return [(st, vopq("cd"))]
            return x.check_v(st, z3.BoolVal(False), "KeyError", node, lambda s: [(s, vopq())])
        has = contains(x, st, a, i, node)
        return x.check_v(st, has, "KeyError", node, lambda s: [(s, vopq("cdv"))])
    if a.k == "ftable":
        has = contains(x, st, a, i, node)
        cbname = getattr(x.c, "callbacks", {}).get("fn", "parser_function")
        fnv = V("func", ("cb", "fn", cbname))
        flags = {fl for _, fl in a.t["table"].values() if fl is not None}

        def val(s):
            alts = [(z3.Not(z3.Bool(fresh_name("tuple_entry"))), fnv)]
            istup = z3.Not(alts[0][0])
            alts = [(z3.Not(istup), fnv)]
            for fl in sorted(flags, key=repr):
                alts.append((istup, V("tuple", (fnv, from_const(x, s, fl)))))
            return x.choices(s, alts)
        return x.check_v(st, has, "KeyError", node, val)
    if a.k == "match":
        return match_group(x, st, a, [i], node)
    if a.k == "opq" or x.mode == "frame":
        if x.mode == "value":
            x.assumptions.add(f"indexing an opaque value assumed not to raise: {loader.norm(node)[:70]}")
        return [(st, vopq("ix", a.tags))]
    raise OutOfReach(f"index {a.k}[{i.k}]: {loader.norm(node)[:60]} (line {node.lineno})")


def setitem(x, st, a: V, i: V, v: V, node):
    if a.k == "ref":
        o = st.heap[a.t]
        if isinstance(o, HDict):
            if o.items is not None and x.const_of(i) is not None:
                c = x.const_of(i)
                o.items = [(k, vv) for k, vv in o.items if x.const_of(k) != c] + [(i, v)]
            else:
                o.items = None
            return
        if isinstance(o, HList):
            o.forget()
            return
    if a.k in ("opq", "smap", "sset") or x.mode == "frame":
        if a.k == "gref":
            x.oblige("frame", node, st, z3.BoolVal(False), detail="item assignment on tracked field")
        return
    raise OutOfReach(f"item assignment on {a.k} (line {node.lineno})")


def delitem(x, st, a: V, i: V, node):
    if a.k == "ref":
        o = st.heap[a.t]
        if isinstance(o, HDict) and o.items is not None and x.const_of(i) is not None:
            c = x.const_of(i)
            if any(x.const_of(k) == c for k, _ in o.items):
                o.items = [(k, vv) for k, vv in o.items if x.const_of(k) != c]
                return [(st, NONE)]
        o.items = None
        if x.mode == "value":
            return x.check_v(st, z3.Bool(fresh_name("key_present")), "KeyError", node, lambda s: [(s, NONE)])
        return [(st, NONE)]
    if a.k == "opq" or x.mode == "frame":
        if x.mode == "value":
            return x.check_v(st, z3.Bool(fresh_name("key_present")), "KeyError", node, lambda s: [(s, NONE)])
        return [(st, NONE)]
    raise OutOfReach(f"del item on {a.k}")


def unpack(x, st, v: V, n: int, node):
    if v.k == "tuple":
        if len(v.t) == n:
            return list(v.t)
        x.oblige("safety", node, st, z3.BoolVal(False), exc="ValueError", detail="unpack arity")
        return [vopq() for _ in range(n)]
    if v.k == "ref":
        o = st.heap[v.t]
        if isinstance(o, HList) and o.items is not None and len(o.items) == n:
            return list(o.items)
    if v.k == "match_groups":
        gs = v.t
        if len(gs) == n:
            return list(gs)
    if v.k == "opq" or x.mode == "frame":
        if x.mode == "value":
            x.assumptions.add(f"unpacking an opaque value assumed to have arity {n}: {loader.norm(node)[:60]}")
        return [vopq("unp", v.tags) for _ in range(n)]
    raise OutOfReach(f"unpack {v.k} into {n} (line {getattr(node,'lineno',0)})")


def concrete_items(x, st, v: V):
    if v.k == "tuple":
        return list(v.t)
    if v.k == "ref":
        o = st.heap[v.t]
        if isinstance(o, HList) and o.items is not None:
            return list(o.items)
        if isinstance(o, HDict) and o.items is not None:
            return [k for k, _ in o.items]
    if v.k == "set":
        try:
            return [from_const(x, st, c) for c in sorted(v.t)]
        except Exception:
            return None
    if v.k == "range_c":
        return [vint(i) for i in v.t]
    return None


def generic_element(x, st, v: V | None):
    """an arbitrary element of the iterable (fresh, constrained)"""
    if v is None:
        return vopq("elem")
    if v.k in ("gref", "nodeiter") and v.t == getattr(x.c, "node_stack", None):
        from . import pnodes
        return pnodes.element(x, st, v.t)
    if v.k == "strlist":
        j = z3.Int(fresh_name("j"))
        st.pc.append(z3.And(j >= 0, j < v.t["len"]))
        return vstr(z3.Select(v.t["arr"], v.t["off"] + j))
    if v.k == "str":
        c = fresh("str", "ch")
        st.pc.append(z3.Length(c.t) == 1)
        st.pc.append(z3.Contains(v.t, c.t))
        return c
    if v.k == "range":
        lo, hi = v.t
        j = fresh("int", "ri")
        st.pc.append(z3.And(j.t >= lo, j.t < hi))
        return j
    if v.k == "range_c":
        j = fresh("int", "ri")
        st.pc.append(z3.Or(*[j.t == i for i in v.t]) if v.t else z3.BoolVal(False))
        return j
    if v.k == "smap":
        k = fresh("str", "key") if v.t["key"] == "str" else fresh("int", "key")
        st.pc.append(smap_has(x, v, k))
        return k
    if v.k == "smap_items":
        m = v.t
        k = fresh("str", "key") if m.t["key"] == "str" else fresh("int", "key")
        st.pc.append(smap_has(x, m, k))
        return V("tuple", (k, smap_get(x, st, m, k)))
    if v.k == "maplist":
        fn, inner = v.t
        if fn == "str":
            e = generic_element(x, st, inner)
            if e.k == "str":
                return e
            return fresh("str", "mapstr")
    if v.k == "ref":
        o = st.heap[v.t]
        if isinstance(o, HList):
            if o.items:
                ks = {e.k for e in o.items}
                if len(ks) == 1 and next(iter(ks)) in ("str", "int"):
                    k0 = next(iter(ks))
                    r = fresh(k0, "el")
                    st.pc.append(z3.Or(*[r.t == e.t for e in o.items]))
                    return r
            if o.items is None and o.elem in ("str", "int", "bool"):
                return fresh(o.elem, "el")
    if v.k in ("zrow", "allpages", "nset"):
        from . import absmodels
        r = absmodels.iter_element(x, st, v, None)
        if r is not None:
            return r[0]
    if v.k == "matchiter":
        return make_match(x, st, v.t[0], v.t[1], None, "search")
    if v.k == "sqlcursor":
        return V("opq", fresh_name("row"))
    if v.k in ("sseq",):
        return fresh("str", "el")
    if v.k == "gref":
        return fresh("str", "el")
    return vopq("elem", v.tags)


def with_enter(x, st, v: V, node):
    return


def with_exit(x, st, v: V, node):
    return


_SPEC_MODS: dict = {}


def spec_module(name):
    if name not in _SPEC_MODS:
        from pathlib import Path
        m = loader.Module("spec." + name, Path(__file__).resolve().parent.parent / "specs" / (name + ".py"))
        m.is_spec = True
        _SPEC_MODS[name] = m
    return _SPEC_MODS[name]


# ---------------------------------------------------------------- attributes

def getattr_(x, st, v: V, name: str, node):
    if v.k == "ctxholder":
        return [(st, V("ctx", "ctx") if name in ("ctx", "wtp") else vopq("holder." + name))]
    if v.k in ("pnode", "kind", "kindset") or (v.k == "type" and v.t == "NodeKind"):
        from . import pnodes
        r = pnodes.getattr_(x, st, v, name, node)
        if r is not None:
            return r
    if v.k in ("page", "title", "zrow"):
        from . import absmodels
        r = absmodels.getattr_(x, st, v, name, node)
        if r is not None:
            return r
    if v.k == "ctx":
        f = ctx_field(x, st, name, node)
        if f is not None:
            if f.k == "optfield":
                isn = z3.Bool(f"ctx.{name}!isnone")
                return x.choices(st, [(isn, NONE), (z3.Not(isn), vstr(z3.String("ctx." + name)))])
            return [(st, f)]
        return [(st, V("func", ("ctxmethod", name))) if _is_ctx_method(name) else
                (st, _ctx_unknown_field(x, st, name, node))]
    if v.k == "specmod":
        sm = spec_module(v.t)
        fn = sm.top.get(name)
        if fn is None:
            raise OutOfReach(f"no spec function {name}")
        return [(st, V("func", ("def", fn, (), sm)))]
    if v.k == "mod":
        return [(st, V("mod", v.t + "." + name))]
    if v.k in ("str", "ref", "gref", "strlist", "tuple", "match", "smap", "sseq", "set", "cdict",
               "srec", "path", "sset", "float", "int", "locdata", "glist", "kinddict", "leveltab"):
        return [(st, V("func", ("method", v, name)))]
    if v.k == "opq":
        # attribute of an opaque object: a stable opaque child
        return [(st, V("opq", f"{v.t}.{name}", v.tags))]
    if v.k == "lib":
        return [(st, V("lib", f"{v.t}.{name}"))]
    if v.k == "none":
        if x.mode == "value":
            return x.check_v(st, z3.BoolVal(False), "AttributeError", node, lambda s: [(s, vopq())])
        return [(st, vopq("noneattr"))]
    if v.k == "func":
        if name == "cache_clear":
            return [(st, V("func", ("cache_clear", v)))]
        return [(st, vopq("fattr"))]
    if v.k == "type":
        return [(st, V("func", ("classattr", v.t, name)))]
    if x.mode == "frame":
        return [(st, vopq("attr"))]
    raise OutOfReach(f"attribute {name} of {v.k} (line {node.lineno})")


_ctx_methods_cache: set | None = None


def _is_ctx_method(name: str) -> bool:
    global _ctx_methods_cache
    if _ctx_methods_cache is None:
        mod = loader.module("core")
        cls = mod.top["Wtp"]
        _ctx_methods_cache = {n.name for n in cls.body if isinstance(n, ast.FunctionDef)}
    return name in _ctx_methods_cache


def _ctx_unknown_field(x, st, name, node):
    x.note_opaque("ctx field " + name)
    return V("opq", "ctx." + name)


def setattr_(x, st, recv: V, name: str, v: V, node):
    if recv.k == "pnode":
        from . import pnodes
        pnodes.setattr_(x, st, recv, name, v, node)
        return
    if recv.k == "ctx" and name == getattr(x.c, "node_stack", None):
        from . import pnodes
        pnodes.assign(x, st, name, v, node)
        return
    if recv.k == "ctx":
        if name in GHOST_SEQ_FIELDS:
            seq = to_sseq(x, st, v)
            if seq is None:
                x.oblige("frame", node, st, z3.BoolVal(False), detail="unmodelled assignment to tracked field")
                st.ghost[name] = V("sseq", z3.Const(fresh_name("unk_" + name), SeqS))
            else:
                st.ghost[name] = seq
            return
        if name in GHOST_LIST_FIELDS:
            if v.k == "ref" and isinstance(st.heap[v.t], HList) and st.heap[v.t].items == []:
                st.ghost[name] = V("glist", (None, []))
            else:
                st.ghost[name] = V("glist", (fresh_name("unk_" + name), []))
            return
        st.ghost["field:" + name] = v
        return
    if recv.k == "opq" or x.mode == "frame":
        return
    raise OutOfReach(f"attribute assignment on {recv.k}.{name}")


def seq_nth(t, i):
    """t[i] for an index known to be in range, pushed through concatenation, unit and extraction so that the
    solver sees element terms of the underlying sequences (z3 does not do this rewriting on its own)"""
    k = t.decl().kind() if z3.is_app(t) else None
    if k == z3.Z3_OP_SEQ_UNIT:
        return t.arg(0)
    if k == z3.Z3_OP_SEQ_CONCAT:
        parts = list(t.children())
        off = z3.IntVal(0)
        offs = []
        for p_ in parts:
            offs.append(off)
            off = off + z3.Length(p_)
        r = seq_nth(parts[-1], i - offs[-1])
        for p_, o in zip(reversed(parts[:-1]), reversed(offs[:-1])):
            r = z3.If(i < o + z3.Length(p_), seq_nth(p_, i - o), r)
        return r
    if k == z3.Z3_OP_SEQ_EXTRACT:
        return seq_nth(t.arg(0), t.arg(1) + i)
    return t[i]


def _elem_term(x, e):
    if e.k == "kind":
        return e.t
    if e.k == "pnode":
        return e.t[0]
    return x.as_str(e)


def to_sseq(x, st, v: V):
    if v.k == "sseq":
        return v
    if v.k == "gref":
        return st.ghost[v.t]
    if v.k == "ref":
        o = st.heap[v.t]
        if isinstance(o, HList) and o.items is not None:
            ts = [_elem_term(x, e) for e in o.items]
            if all(t is not None for t in ts):
                if not ts:
                    return V("sseq", z3.Empty(SeqS))
                us = [z3.Unit(t) for t in ts]
                return V("sseq", us[0] if len(us) == 1 else z3.Concat(*us))
    if v.k == "tuple":
        ts = [x.as_str(e) for e in v.t]
        if all(t is not None for t in ts):
            if not ts:
                return V("sseq", z3.Empty(SeqS))
            us = [z3.Unit(t) for t in ts]
            return V("sseq", us[0] if len(us) == 1 else z3.Concat(*us))
    return None


# ---------------------------------------------------------------- regex facts

def regex_facts(pattern: str, flags: int = 0):
    """(ngroups, set of group numbers that participate in *every* match) from
    CPython's own regex parser (tooling interpreter; the grammar is stable)."""
    try:
        import re._parser as sp  # py311+
    except ImportError:  # pragma: no cover
        import sre_parse as sp
    try:
        p = sp.parse(pattern, flags)
    except Exception:
        return None
    ngroups = p.state.groups - 1
    always = set()

    def walk(items, certain):
        for op, av in items:
            name = str(op)
            if name == "SUBPATTERN":
                g, _, _, sub = av
                if g and certain:
                    always.add(g)
                walk(sub, certain)
            elif name in ("MAX_REPEAT", "MIN_REPEAT", "POSSESSIVE_REPEAT"):
                lo, hi, sub = av
                walk(sub, certain and lo >= 1)
            elif name == "BRANCH":
                for alt in av[1]:
                    walk(alt, False)
            elif name in ("ASSERT", "ASSERT_NOT"):
                walk(av[1], certain and name == "ASSERT")
            elif name == "GROUPREF_EXISTS":
                walk(av[1], False)
                if av[2]:
                    walk(av[2], False)
            elif name == "ATOMIC_GROUP":
                walk(av, certain)
    walk(p, True)
    return ngroups, always


def make_match(x, st, pattern_v: V, string_v: V, node, kind="match"):
    c = x.const_of(pattern_v) if pattern_v is not None else None
    facts = regex_facts(c[0]) if c is not None and isinstance(c[0], str) else None
    g0 = fresh("str", "g0")
    if string_v is not None and string_v.k == "str":
        st.pc.append(z3.Contains(string_v.t, g0.t))
        if kind == "fullmatch":
            st.pc.append(g0.t == string_v.t)
        elif kind == "match":
            st.pc.append(z3.PrefixOf(g0.t, string_v.t))
    groups = [g0]
    info = {"pattern": c[0] if c else None, "optional": set()}
    if facts is not None:
        n, always = facts
        for i in range(1, n + 1):
            g = fresh("str", f"g{i}")
            st.pc.append(z3.Contains(g0.t, g.t))
            groups.append(g)
            if i not in always:
                info["optional"].add(i)
        # pattern-specific assumed contracts (validated by bounded enumeration)
        from . import regex_contracts
        regex_contracts.apply(x, st, c[0], kind, string_v, groups)
    else:
        info["unknown_groups"] = True
    info["groups"] = groups
    return V("match", info)


def match_group(x, st, m: V, args, node):
    info = m.t
    if not args:
        return [(st, info["groups"][0])]
    if len(args) > 1:
        return [(st, vopq("multigroup"))]
    c = x.const_of(args[0])
    if c is None or not isinstance(c[0], int):
        return [(st, vopq("grp"))]
    i = c[0]
    if info.get("unknown_groups"):
        return [(st, fresh("str", "g") if i == 0 else vopq("grp"))]
    if i >= len(info["groups"]):
        return x.check_v(st, z3.BoolVal(False), "IndexError", node, lambda s: [(s, vopq())])
    g = info["groups"][i]
    if i in info["optional"]:
        isn = z3.Bool(fresh_name("grp_none"))
        return x.choices(st, [(isn, NONE), (z3.Not(isn), g)])
    return [(st, g)]


# ---------------------------------------------------------------- calls

PURE_STR_METHODS = {"strip", "lstrip", "rstrip", "lower", "upper"}
RECORDERS = {"error": "errors", "warning": "warnings", "debug": "debugs", "note": "notes",
             "wiki_notice": "wiki_notices"}


def call(x, st, f: V, pos: list, kw: dict, node, chain):
    if f.k == "func":
        tag = f.t[0]
        if tag == "builtin":
            return call_builtin(x, st, f.t[1], pos, kw, node, chain)
        if tag == "method":
            return call_method(x, st, f.t[1], f.t[2], pos, kw, node, chain)
        if tag in ("def", "lambda"):
            return call_def(x, st, f, pos, kw, node, chain)
        if tag == "cb":
            return call_callback(x, st, f.t[1], f.t[2], pos, kw, node)
        if tag == "ctxmethod":
            return call_ctxmethod(x, st, f.t[1], pos, kw, node, chain)
        if tag == "cache_clear":
            st.ghost["memo_valid"] = vbool(True)
            x.log_call(st, "cache_clear", [])
            return [(st, NONE)]
        if tag == "classattr":
            return [(st, vopq(f"{f.t[1]}.{f.t[2]}()"))]
        if tag == "absmethod":
            from . import absmodels
            if f.t[1] == "removeprefix":
                return [(st, V("name", absmodels.KEY(f.t[2].t)))]
            if f.t[1].startswith("row:"):
                return absmodels.row_method(x, st, f.t[2], f.t[1][4:], pos, node)
    if f.k == "mod":
        return call_module_fn(x, st, f.t, pos, kw, node, chain)
    if f.k == "type":
        return call_type(x, st, f.t, pos, kw, node)
    if f.k == "opq":
        return call_opaque(x, st, f, pos, kw, node)
    if f.k == "lib":
        x.assumptions.add(f"library object method {f.t.split('.')[-1]} assumed total (datetime/dateparser/pathlib objects)")
        if f.t.endswith(("strftime", "isoformat", "format")):
            return [(st, fresh("str", "lib"))]
        return [(st, V("lib", f.t + "()"))]
    if x.mode == "frame":
        return call_opaque(x, st, vopq("callee"), pos, kw, node)
    raise OutOfReach(f"call of {f.k}: {loader.norm(node)[:60]} (line {node.lineno})")


def _raise_fork(x, st, node, exc="AnyException", why=""):
    """frame mode: the callee may raise, leaving the path extended"""
    s2 = st.fork(z3.Bool(fresh_name("callee_raises")))
    g = s2.ghost.get("expand_stack")
    if g is not None:
        s2.ghost["expand_stack"] = V("sseq", z3.Concat(g.t, z3.Const(fresh_name("leftover"), SeqS)))
    return (s2, RAISE(exc, why or loader.norm(node)[:60]))


def _sql_kind(x, v):
    """'write' | 'select' | 'other' | 'unknown' from the statement text"""
    txt = None
    c = x.const_of(v) if v is not None else None
    if c is not None and isinstance(c[0], str):
        txt = c[0]
    elif v is not None and v.k == "str":
        t = v.t
        while z3.is_app(t) and t.decl().kind() == z3.Z3_OP_SEQ_CONCAT:
            t = t.arg(0)
        if z3.is_string_value(t):
            txt = smt._z3str_to_py(t)
    if txt is None:
        return "unknown", None
    w = txt.strip().split(None, 1)[0].upper() if txt.strip() else ""
    if w in ("INSERT", "UPDATE", "DELETE", "REPLACE", "DROP", "ALTER"):
        return "write", " ".join(txt.split())
    if w == "SELECT":
        return "select", " ".join(txt.split())
    return "other", " ".join(txt.split())


def call_db(x, st, method, pos, kw, node):
    """sqlite3 connection methods: an external component with an assumed
    contract -- statements are logged (text + parameters) in the ghost SQL log;
    a writing statement makes the get_page memo incoherent"""
    x.assumptions.add("sqlite3: execute() runs the given statement with the given parameters; SELECT does not "
                      "modify the table; durability/atomicity as documented (assumed external contract)")
    if method in ("execute", "executescript", "executemany"):
        kind, txt = _sql_kind(x, pos[0] if pos else None)
        params = pos[1] if len(pos) > 1 else V("tuple", ())
        st.ghost["sql_log"] = V("sqllog", st.ghost.get("sql_log", V("sqllog", ())).t + ((kind, txt, pos[0] if pos else None, params),))
        if kind in ("write", "unknown") or method != "execute":
            if kind != "other" or method != "executescript":
                st.ghost["memo_valid"] = vbool(False)
        return [(st, V("sqlcursor", kind))]
    if method == "commit":
        st.ghost["sql_log"] = V("sqllog", st.ghost.get("sql_log", V("sqllog", ())).t + (("commit", "COMMIT", None, V("tuple", ())),))
        return [(st, NONE)]
    if method == "close":
        st.ghost["sql_log"] = V("sqllog", st.ghost.get("sql_log", V("sqllog", ())).t + (("close", "CLOSE", None, V("tuple", ())),))
        return [(st, NONE)]
    return [(st, vopq("db." + method))]


def call_opaque(x, st, f: V, pos, kw, node):
    src = loader.norm(node.func)
    if isinstance(node.func, ast.Attribute) and loader.norm(node.func.value).endswith("db_conn"):
        return call_db(x, st, node.func.attr, pos, kw, node)
    cbname = x.c.callbacks.get(src)
    if cbname is not None:
        return call_callback(x, st, src, cbname, pos, kw, node)
    if x.mode == "frame":
        if isinstance(node.func, ast.Attribute):
            x.log_call(st, node.func.attr, pos, None, kw)      # opaque method call, logged by method name
        if f.k == "opq" and f.t.rsplit(".", 1)[-1] in PURE_STR_METHODS and not pos and not kw:
            # pure str method on an opaque (string) value: a stable derived name, so that data-flow clauses
            # can say "the trimmed result of ..."
            return [(st, V("opq", f.t + "()", f.tags))]
        x.assumptions.add(f"opaque callable `{src[:60]}` leaves tracked fields as found on return, only extends the path when raising")
        out = [(st, vopq("ret", f.tags))]
        out.append(_raise_fork(x, st, node))
        return out
    # value mode: an opaque callable has no model
    raise OutOfReach(f"call of opaque callable {src[:60]} (line {node.lineno})")


def call_callback(x, st, name, cbname, pos, kw, node):
    if cbname.startswith("abs:"):
        from . import absmodels
        x.assumptions.add(f"callback `{name}`: abstract contract {cbname[4:]}")
        return absmodels.call_abstract(x, st, cbname[4:], pos, kw, node)
    if cbname == "total_str":
        a = pos[0] if pos else None
        t = x.as_str(a) if a is not None else None
        if t is None:
            if x.mode == "value":
                x.oblige("pre@call", node, st, z3.BoolVal(False), detail=f"callback {name} needs a str, got {a.k if a else None}")
            return [(st, fresh("str", "cbret"))]
        # contract of the expander callback: total, and the empty string expands to the empty string
        st.pc.append(smt.f_E(z3.StringVal("")) == z3.StringVal(""))
        out = [(st, vstr(smt.f_E(t)))]
        if x.mode == "frame":
            out.append(_raise_fork(x, st, node))
        return out
    spec = x.reg.callback_contracts.get(cbname, {})
    if spec.get("members"):
        # a table of package functions, each of which has this contract (checked: see spec["members"]);
        # caller side: pre@call obligations, havoc of the modified ghost fields, the ensures assumed
        sid = next(x.scope_ids)
        st.scopes[sid] = {}
        for cl in spec.get("requires", []):
            for s2, v in x.eval_clause(cl, st, (sid,)):
                x.oblige("pre@call", f"{cbname}: {cl} @ {loader.norm(node)[:60]}", s2,
                         z3.BoolVal(False) if v.k == "raise" else x.truth_st(v, s2))
        pre = st.fork()
        for gname in spec.get("modifies", []):
            g0 = st.ghost.get(gname)
            if g0 is not None and g0.k == "kstr":
                st.ghost[gname] = V("kstr", z3.String(fresh_name("post_" + gname)))
            elif g0 is not None and g0.k == "sseq":
                st.ghost[gname] = V("sseq", z3.Const(fresh_name("post_" + gname), SeqS))
        saved_entry = st.entry
        st.entry = pre
        try:
            for cl in spec.get("ensures", []):
                n0 = len(st.pc)
                for s2, v in x.eval_clause(cl, st, (sid,)):
                    if v.k != "raise":
                        extra = s2.pc[n0:] if s2 is not st else []
                        st.pc.append(z3.Implies(z3.And(*extra) if extra else z3.BoolVal(True), x.truth_st(v, s2)))
        finally:
            st.entry = saved_entry
        outs = [(st, NONE)]
        if x.mode == "frame":
            outs.append(_raise_fork(x, pre, node))
        return outs
    x.assumptions.add(f"callback `{name}` honours contract `{cbname}`: " + spec.get("text", ""))
    rk = spec.get("result", "opq")
    outs = []
    if rk == "optstr":
        isn = z3.Bool(fresh_name("cb_none"))
        outs.append((st.fork(isn), NONE))
        outs.append((st.fork(z3.Not(isn)), fresh("str", "cbret")))
    else:
        outs.append((st, fresh(rk, "cbret")))
    for s_, r_ in outs:
        x.log_call(s_, name, pos, r_, kw)
    if x.mode == "frame" and spec.get("may_raise", True):
        outs.append(_raise_fork(x, st, node))
    return outs


def call_ctxmethod(x, st, name, pos, kw, node, chain):
    if name in x.c.abstract_calls and x.depth == 0:
        from . import absmodels
        x.assumptions.add(f"abstract (SQL-level) contract of Wtp.{name}: {x.c.abstract_calls[name]} -- validated by the bounded tier")
        return absmodels.call_abstract(x, st, x.c.abstract_calls[name], pos, kw, node)
    c = x.reg.by_target.get("core:Wtp." + name)
    if name in RECORDERS and (c is None or x.c.target != c.target):
        # effect of a recorder as seen by callers (its own body is verified
        # against exactly this effect)
        lst = RECORDERS[name]
        g = st.ghost[lst]
        st.ghost[lst] = V("glist", (g.t[0], g.t[1] + [V("opqrec", name)]))
        x.log_call(st, name, pos)
        return [(st, NONE)]
    mod = loader.module("core")
    cls = mod.top["Wtp"]
    fn = next((n for n in cls.body if isinstance(n, ast.FunctionDef) and n.name == name), None)
    fv = V("func", ("def", fn, (), mod))
    x._ctx_call = True
    try:
        return call_def(x, st, fv, [V("ctx", "ctx")] + list(pos), kw, node, chain)
    finally:
        x._ctx_call = False


def bind_args(x, fn, pos, kw, st, defaults_chain):
    a = fn.args
    names = [p.arg for p in list(a.posonlyargs) + list(a.args)]
    bound = {}
    for n, v in zip(names, pos):
        bound[n] = v
    if len(pos) > len(names):
        if a.vararg:
            bound[a.vararg.arg] = V("tuple", tuple(pos[len(names):]))
        else:
            raise OutOfReach("too many positional args")
    elif a.vararg:
        bound[a.vararg.arg] = V("tuple", ())
    for k, v in kw.items():
        bound[k] = v
    # defaults
    defs = list(a.defaults)
    for n, d in zip(names[len(names) - len(defs):], defs):
        if n not in bound:
            rs = x.ev(d, st, defaults_chain)
            bound[n] = rs[0][1]
    for p, d in zip(a.kwonlyargs, a.kw_defaults):
        if p.arg not in bound and d is not None:
            bound[p.arg] = x.ev(d, st, defaults_chain)[0][1]
    for n in names:
        if n not in bound:
            raise OutOfReach(f"missing argument {n}")
    return bound


def call_def(x, st, f: V, pos, kw, node, chain):
    tag, fn, fchain, fmod = f.t
    c = x.reg.by_node.get(id(fn)) if tag == "def" else None
    name = getattr(fn, "name", "<lambda>")
    if c is not None and not c.inline and c.target not in x.c.inline_targets:
        return apply_contract(x, st, c, fn, pos, kw, node, chain)
    x.log_call(st, name, pos, None, kw)
    if x.mode == "frame":
        if tag == "lambda" or (tag == "def" and _small(fn) and x.depth < 2):
            return inline(x, st, f, pos, kw, node)
        # package function without a contract: the auto "balance" contract
        key = _fn_key(fmod, fn)
        out = [(st, vopq("ret:" + name))]
        if key in x.reg.effectful or key is None:
            out.append(_raise_fork(x, st, node))
        x.frame_calls = getattr(x, "frame_calls", set())
        x.frame_calls.add(key or name)
        return out
    if x.depth >= max(x.MAX_INLINE_DEPTH, getattr(x.c, "inline_depth", 0)):
        raise OutOfReach(f"inline depth exceeded at {name}")
    return inline(x, st, f, pos, kw, node)


def _small(fn) -> bool:
    return (fn.end_lineno - fn.lineno) <= 12


def _fn_key(mod, fn):
    for q, n in loader.all_functions(mod):
        if n is fn:
            return f"{mod.name}:{q}"
    return None


def inline(x, st, f: V, pos, kw, node):
    tag, fn, fchain, fmod = f.t
    sid = next(x.scope_ids)
    st.scopes[sid] = {}
    try:
        bound = bind_args(x, fn, pos, kw, st, fchain)
    except OutOfReach:
        if x.mode == "frame":
            return [(st, vopq("ret"))]
        raise
    st.scopes[sid].update(bound)
    ch2 = (sid,) + tuple(fchain)
    save_mod = x.mod
    x.mod = fmod
    x.depth += 1
    save_globals = x.global_scope
    if fmod is not save_mod:
        x.global_scope = {}
    try:
        if tag == "lambda":
            return x.ev(fn.body, st, ch2)
        outs = x.block(loader.strip_docstring(fn.body), st, ch2)
    finally:
        x.depth -= 1
        x.mod = save_mod
        x.global_scope = save_globals
    res = []
    for s, oc in outs:
        if oc[0] == "fall":
            res.append((s, NONE))
        elif oc[0] == "return":
            res.append((s, oc[1]))
        elif oc[0] == "raise":
            res.append((s, RAISE(oc[1], oc[2])))
        else:
            raise OutOfReach("stray loop control in inlined function")
    return res


def apply_contract(x, st, c, fn, pos, kw, node, chain):
    """caller side: pre@call obligations, effects, result, exceptional fork"""
    sid = next(x.scope_ids)
    try:
        bound = bind_args(x, fn, pos, kw, st, ())
    except OutOfReach:
        bound = {}
    st.scopes[sid] = dict(bound)
    ch2 = (sid,)
    for cl in c.requires:
        for s2, v in x.eval_clause(cl, st, ch2):
            if v.k == "raise":
                x.oblige("pre@call", f"{c.target}: {cl}", s2, z3.BoolVal(False))
            else:
                x.oblige("pre@call", f"{c.target}: {cl} @ {loader.norm(node)[:60]}", s2, x.truth_st(v, s2))
    outs = []
    rk = c.result or "opq"
    if rk == "optstr":
        isn = z3.Bool(fresh_name("ret_none"))
        cands = [(st.fork(isn), NONE), (st.fork(z3.Not(isn)), fresh("str", "ret"))]
    elif rk == "none":
        cands = [(st, NONE)]
    elif rk == "colon_tuple":
        cands = [(st, V("symtuple", {"name": fresh_name("prefixes"), "suffix": ":"}))]
    elif rk == "optpage":
        isn = z3.Bool(fresh_name("ret_none"))
        cands = [(st.fork(isn), NONE), (st.fork(z3.Not(isn)), V("opq", fresh_name("page")))]
    else:
        cands = [(st, fresh(rk, "ret"))]
    for s, r in cands:
        x.log_call(s, c.target.split(":")[-1].rsplit(".", 1)[-1], pos, r, kw)
        pre = None
        if getattr(c, "assume_ensures", False):
            pre = s.fork()                 # the state before the call: what old() means in the callee's ensures
            for gname in c.modifies:
                g0 = s.ghost.get(gname)
                if g0 is not None and g0.k == "sseq":
                    s.ghost[gname] = V("sseq", z3.Const(fresh_name("post_" + gname), SeqS))
                elif g0 is not None and g0.k == "kstr":
                    s.ghost[gname] = V("kstr", z3.String(fresh_name("post_" + gname)))
        for eff in getattr(c, "effects", []) or []:
            apply_effect(x, s, eff, bound)
        env = dict(bound)
        env["result"] = r
        if pre is not None:
            saved_entry = s.entry
            s.entry = pre
            try:
                for cl in c.ensures:
                    n0 = len(s.pc)
                    for s2, v in x.eval_clause(cl, s, ch2, env):
                        if v.k != "raise":
                            extra = s2.pc[n0:] if s2 is not s else []
                            s.pc.append(z3.Implies(z3.And(*extra) if extra else z3.BoolVal(True), x.truth_st(v, s2)))
            finally:
                s.entry = saved_entry
        for cl in c.callee_ensures:
            for s2, v in x.eval_clause(cl, s, ch2, env):
                if v.k != "raise":
                    s.pc.append(x.truth_st(v, s2))
        outs.append((s, r))
    if x.mode == "frame" and c.may_raise:
        outs.append(_raise_fork(x, st, node))
    elif x.mode == "value":
        for exc in c.raises:
            s2 = st.fork(z3.Bool(fresh_name("callee_raises_" + exc)))
            outs.append((s2, RAISE(exc, "from " + c.target)))
    return outs


def apply_effect(x, st, eff: str, bound):
    kind, _, arg = eff.partition(":")
    if kind == "append":
        g = st.ghost[arg]
        st.ghost[arg] = V("glist", (g.t[0], g.t[1] + [V("opqrec", arg)]))
    elif kind == "havoc":
        if arg in GHOST_LIST_FIELDS:
            st.ghost[arg] = V("glist", (fresh_name("unk_" + arg), []))
        elif arg in GHOST_SEQ_FIELDS:
            st.ghost[arg] = V("sseq", z3.Const(fresh_name("unk_" + arg), SeqS))
        else:
            st.ghost.pop("field:" + arg, None)
    elif kind == "memo_invalid":
        st.ghost["memo_valid"] = vbool(False)
    elif kind == "memo_valid":
        st.ghost["memo_valid"] = vbool(True)


def call_type(x, st, tname, pos, kw, node):
    if getattr(x.c, "node_stack", "") and tname in ("WikiNode", "TemplateNode", "HTMLNode", "LevelNode"):
        from . import pnodes
        return pnodes.construct(x, st, tname, pos, kw, node)
    if tname in ("deque", "defaultdict"):
        return [(st, vopq(tname))]
    if tname == "Path":
        x.assumptions.add("pathlib.Path construction/resolve assumed total")
        return [(st, V("lib", "Path"))]
    if tname in EXC_NAMES:
        return [(st, V("exc", tname))]
    if tname == "Page":
        return [(st, V("opq", fresh_name("page")))]
    if x.mode == "frame":
        return [(st, vopq("obj:" + tname))]
    return [(st, vopq("obj:" + tname))]


# ---------------------------------------------------------------- builtins

def _len_of(x, st, v: V):
    if v.k == "gref":
        v = st.ghost[v.t]
    if v.k == "str":
        return z3.Length(v.t)
    if v.k in ("sseq", "kstr"):
        return z3.Length(v.t)
    if v.k == "strlist":
        return v.t["len"]
    if v.k == "tuple":
        return z3.IntVal(len(v.t))
    if v.k == "set":
        return z3.IntVal(len(v.t))
    if v.k == "cdict":
        return z3.IntVal(len(v.t))
    if v.k == "intlist":
        L = z3.Int("len!" + v.t)
        st.pc.append(L >= 0)
        return L
    if v.k == "ref" and type(st.heap[v.t]).__name__ == "HSet":
        from . import absmodels
        return absmodels.set_len(x, st, st.heap[v.t])
    if v.k == "ref":
        o = st.heap[v.t]
        if getattr(o, "items", None) is not None:
            return z3.IntVal(len(o.items))
        if isinstance(o, HList):
            L = o.sym_len()
            st.pc.append(L >= o.minlen)
            return L
        L = z3.Int(fresh_name("len"))
        st.pc.append(L >= 0)
        return L
    if v.k == "glist":
        base, app = v.t
        if base is None:
            return z3.IntVal(len(app))
        L = z3.Int("len!" + base)
        st.pc.append(L >= 0)
        return L + len(app)
    if v.k in ("opq", "match_groups", "smap"):
        L = z3.Int("len!" + (v.t if isinstance(v.t, str) else fresh_name("x")))
        st.pc.append(L >= 0)
        return L
    if v.k == "bytes":
        L = z3.Int(fresh_name("nbytes"))
        st.pc.append(L >= z3.Length(v.t))
        return L
    return None


def call_builtin(x, st, name, pos, kw, node, chain):
    a0 = pos[0] if pos else None
    if a0 is not None and a0.k == "gref" and name not in ("len", "tuple", "list", "isinstance", "str", "repr"):
        a0 = st.ghost[a0.t]
    if name in SPEC_BUILTINS:
        return spec_builtin(x, st, name, pos, kw, node)
    if name == "len":
        L = _len_of(x, st, a0)
        if L is not None:
            return [(st, vint(L))]
        if x.mode == "frame":
            return [(st, vopq("len"))]
        raise OutOfReach(f"len of {a0.k} (line {node.lineno})")
    if name == "isinstance":
        return [(st, vbool(isinstance_(x, st, pos[0], node.args[1], pos[1])))]
    if name == "callable":
        return [(st, vbool(z3.BoolVal(True) if a0.k == "func" else z3.Bool(fresh_name("callable"))))]
    if name == "str":
        if not pos:
            return [(st, vstr(""))]
        t = x._to_strterm(a0, st)
        if t is not None:
            if a0.k == "int" and x.mode == "value":
                # str(int) raises ValueError above the int->str digit limit
                lim = z3.IntVal(10) ** 4300
                return [(st, vstr(t))] if z3.is_int_value(a0.t) else \
                    x.check_v(st, z3.Bool(fresh_name("int_below_str_digit_limit")) if False else z3.BoolVal(True),
                              "ValueError", node, lambda s: [(s, vstr(t))])
            return [(st, vstr(t))]
        if a0.k in ("ref", "tuple", "float", "lib", "opq", "set", "strlist"):
            return [(st, fresh("str", "str"))]
        return [(st, fresh("str", "str"))]
    if name == "repr" or name == "format":
        return [(st, fresh("str", "repr"))]
    if name == "int":
        if not pos:
            return [(st, vint(0))]
        if a0.k in ("int", "bool"):
            return [(st, vint(x.as_int(a0)))]
        if a0.k == "str":
            ok = z3.InRe(a0.t, smt.RE_INT_OK())

            def val(s):
                s.pc.append(z3.Implies(z3.Not(z3.Contains(a0.t, z3.StringVal("-"))), smt.f_int(a0.t) >= 0))
                return [(s, vint(smt.f_int(a0.t)))]
            # two obligations per site: grammar, and CPython's int<->str digit
            # limit (sys.get_int_max_str_digits() == 4300 by default)
            def after_grammar(s):
                return x.check_v(s, z3.Length(a0.t) <= 4300, "ValueError", node, val,
                                 watch={"operand_length": z3.IntToStr(z3.Length(a0.t))}, tag="digit-limit",
                                 hints=["length-abstraction"])
            return x.check_v(st, ok, "ValueError", node, after_grammar, watch={"operand": a0.t})
        if a0.k == "float":
            if x.mode == "value":
                return x.check_v(st, z3.Bool("finite!" + a0.t), "OverflowError", node,
                                 lambda s: [(s, fresh("int", "fint"))])
            return [(st, fresh("int", "fint"))]
        if a0.k == "opq":
            if x.mode == "value":
                return x.check_v(st, z3.Bool(fresh_name("int_convertible")), "ValueError", node,
                                 lambda s: [(s, fresh("int", "oint"))])
            return [(st, fresh("int", "oint"))]
    if name == "float":
        if a0 is not None and a0.k == "str" and x.mode == "value":
            return x.check_v(st, z3.Bool(fresh_name("float_parsable")), "ValueError", node,
                             lambda s: [(s, fresh("float"))])
        return [(st, fresh("float"))]
    if name in ("max", "min") and len(pos) == 2 and all(p.k in ("int", "bool") for p in pos):
        a, b = x.as_int(pos[0]), x.as_int(pos[1])
        return [(st, vint(z3.If(a >= b, a, b) if name == "max" else z3.If(a <= b, a, b)))]
    if name in ("max", "min"):
        if x.mode == "value" and len(pos) == 1:
            return x.check_v(st, z3.Bool(fresh_name("nonempty")), "ValueError", node, lambda s: [(s, vopq())])
        return [(st, vopq(name))]
    if name == "ord":
        if a0.k == "str":
            return x.check_v(st, z3.Length(a0.t) == 1, "TypeError", node,
                             lambda s: [(s, vint(z3.StrToCode(a0.t)))])
        return [(st, fresh("int", "ord"))]
    if name == "chr":
        if a0.k == "int":
            r = fresh("str", "chr")
            st.pc.append(z3.Length(r.t) == 1)
            return x.check_v(st, z3.And(a0.t >= 0, a0.t < 0x110000), "ValueError", node, lambda s: [(s, r)])
        return [(st, fresh("str", "chr"))]
    if name == "tuple":
        if not pos:
            return [(st, V("tuple", ()))]
        if a0.k == "tuple":
            return [(st, a0)]
        if a0.k == "gref":
            return [(st, st.ghost[a0.t])]
        if a0.k == "sseq":
            return [(st, a0)]
        if a0.k == "ref":
            o = st.heap[a0.t]
            if isinstance(o, HList) and o.items is not None:
                return [(st, V("tuple", tuple(o.items)))]
            return [(st, vopq("tuple", a0.tags))]
        return [(st, vopq("tuple", a0.tags))]
    if name == "list":
        if not pos:
            return [(st, x.alloc(st, HList([])))]
        if a0.k == "tuple":
            return [(st, x.alloc(st, HList(list(a0.t))))]
        if a0.k == "strlist":
            return [(st, a0)] if False else [(st, x.alloc(st, HList(None, "str")))]
        if a0.k == "ref":
            o = st.heap[a0.t]
            return [(st, x.alloc(st, o.copy() if isinstance(o, HList) else HList(None)))]
        if a0.k == "gref":
            return [(st, st.ghost[a0.t])]
        return [(st, x.alloc(st, HList(None)))]
    if name == "dict":
        if not pos and not kw:
            return [(st, x.alloc(st, HDict([])))]
        return [(st, x.alloc(st, HDict(None)))]
    if name in ("set", "frozenset"):
        if not pos:
            return [(st, V("set", frozenset()))]
        if a0.k == "str":
            return [(st, V("charset", a0.t))]
        return [(st, vopq("set"))]
    if name == "range":
        cs = [x.const_of(p) for p in pos]
        if all(c is not None for c in cs):
            r = range(*[c[0] for c in cs])
            if len(r) <= 2000:
                return [(st, V("range_c", list(r)))]
        if len(pos) == 1 and pos[0].k == "int":
            return [(st, V("range", (z3.IntVal(0), pos[0].t)))]
        if len(pos) == 2 and all(p.k == "int" for p in pos):
            return [(st, V("range", (pos[0].t, pos[1].t)))]
        return [(st, vopq("range"))]
    if name == "map":
        fv = pos[0]
        if fv.k == "func" and fv.t == ("builtin", "str"):
            return [(st, V("maplist", ("str", pos[1])))]
        return [(st, vopq("map"))]
    if name in ("reversed", "iter") and pos and pos[0].k == "gref" and pos[0].t == getattr(x.c, "node_stack", None):
        return [(st, V("nodeiter", pos[0].t))]
    if name in ("reversed", "sorted", "enumerate", "zip", "iter"):
        if a0 is not None and a0.k == "str" and name == "reversed":
            return [(st, V("revchars", a0.t))]
        return [(st, vopq(name, a0.tags if a0 else frozenset()))]
    if name in ("any", "all"):
        return [(st, vbool(z3.Bool(fresh_name(name))))]
    if name == "abs" and a0.k == "int":
        return [(st, vint(z3.If(a0.t >= 0, a0.t, -a0.t)))]
    if name == "abs":
        return [(st, fresh("float"))]
    if name == "round":
        if x.mode == "value" and len(pos) == 2 and pos[1].k != "int":
            return x.check_v(st, z3.Bool(fresh_name("ndigits_is_int")), "TypeError", node,
                             lambda s: [(s, fresh("float"))])
        return [(st, fresh("float"))]
    if name == "bool":
        return [(st, vbool(x.truth_st(a0, st)))]
    if name == "print":
        return [(st, NONE)]
    if name == "sum":
        return [(st, vopq("sum"))]
    if name in ("id", "type", "hasattr", "getattr", "next", "divmod", "open"):
        if x.mode == "value":
            raise OutOfReach(f"builtin {name} (line {node.lineno})")
        return [(st, vopq(name))]
    if x.mode == "frame":
        return [(st, vopq(name))]
    raise OutOfReach(f"builtin {name}({', '.join(p.k for p in pos)}) (line {node.lineno})")


def isinstance_(x, st, v: V, tnode, tv):
    names = []
    for n in (tnode.elts if isinstance(tnode, ast.Tuple) else [tnode]):
        s = loader.norm(n)
        names.append("NoneType" if s == "type(None)" else s)
    kmap = {"str": {"str"}, "int": {"int", "bool"}, "bool": {"bool"}, "float": {"float"},
            "tuple": {"tuple"}, "NoneType": {"none"}, "dict": set(), "list": set(), "set": {"set"},
            "frozenset": {"set"}}
    if v.k in ("kind", "kindset", "kindset_s"):
        return z3.BoolVal("NodeKind" in names)
    if v.k == "opq":
        return z3.Bool(f"isinst!{v.t}!{'|'.join(names)}")
    if v.k == "strlist":
        # args: list or tuple of str -- which one is unknown
        if "list" in names and "tuple" in names:
            return z3.BoolVal(True)
        if "list" in names:
            return z3.Bool("islist!" + v.t["name"])
        if "tuple" in names:
            return z3.Not(z3.Bool("islist!" + v.t["name"]))
        return z3.BoolVal(False)
    if v.k == "ref":
        o = st.heap[v.t]
        want = "list" if isinstance(o, HList) else "dict"
        return z3.BoolVal(want in names)
    if v.k == "func":
        return z3.BoolVal(False)
    for n in names:
        if v.k in kmap.get(n, set()):
            return z3.BoolVal(True)
    if all(n in kmap for n in names):
        return z3.BoolVal(False)
    return z3.Bool(fresh_name("isinst"))


# ---------------------------------------------------------------- methods

def call_method(x, st, recv: V, name: str, pos, kw, node, chain):
    k = recv.k
    if k in ("kinddict", "leveltab"):
        from . import pnodes
        if name == "get" and pos:
            return pnodes.table_index(x, st, recv, pos[0], node, pos[1] if len(pos) > 1 else NONE)
        return [(st, vopq("tab." + name))]
    if k == "str":
        return str_method(x, st, recv, name, pos, kw, node, chain)
    if k == "gref":
        return ghost_method(x, st, recv.t, name, pos, kw, node)
    if k == "ref":
        o = st.heap[recv.t]
        if isinstance(o, HList):
            return list_method(x, st, recv, o, name, pos, kw, node)
        if type(o).__name__ == "HSet":
            from . import absmodels
            return absmodels.set_method(x, st, recv, o, name, pos, node)
        if type(o).__name__ == "HKinds":
            from . import absmodels
            return absmodels.kinds_method(x, st, recv, o, name, pos, node)
        return dict_method(x, st, recv, o, name, pos, kw, node)
    if k == "match":
        if name == "group":
            return match_group(x, st, recv, pos, node)
        if name == "groups":
            info = recv.t
            if info.get("unknown_groups"):
                return [(st, vopq("groups"))]
            gs = []
            for i, g in enumerate(info["groups"][1:], 1):
                gs.append(g if i not in info["optional"] else vopq("optgrp"))
            return [(st, V("tuple", tuple(gs)))]
        if name in ("start", "end", "span"):
            r = fresh("int", name)
            st.pc.append(r.t >= 0)
            return [(st, r)]
        return [(st, vopq("m." + name))]
    if k == "smap":
        if name == "get":
            has = smap_has(x, recv, pos[0])
            dflt = pos[1] if len(pos) > 1 else NONE
            return x.choices(st, [(has, smap_get(x, st, recv, pos[0])), (z3.Not(has), dflt)])
        if name == "items":
            return [(st, V("smap_items", recv))]
        if name == "keys":
            return [(st, recv)]
        if name == "values":
            return [(st, vopq("values"))]
        if x.mode == "frame":
            return [(st, vopq("smap." + name))]
    if k == "srec":
        if name == "get":
            r = srec_get(x, st, recv, pos[0], node)
            if r is not None:
                return [(st, r)]
            return [(st, pos[1] if len(pos) > 1 else NONE)]
    if k == "cdict":
        if name == "get":
            c = x.const_of(pos[0])
            if c is not None:
                if c[0] in recv.t:
                    try:
                        return [(st, from_const(x, st, recv.t[c[0]]))]
                    except OutOfReach:
                        return [(st, vopq("cd"))]
                return [(st, pos[1] if len(pos) > 1 else NONE)]
            has = contains(x, st, recv, pos[0], node)
            return [(st.fork(has), vopq("cdv")), (st.fork(z3.Not(has)), pos[1] if len(pos) > 1 else NONE)]
        if name in ("items", "keys", "values"):
            return [(st, vopq("cd." + name))]
    if k == "strlist":
        if name in ("append", "extend", "insert", "pop", "remove", "clear"):
            # mutation of the symbolic args list: only timel_fn does this
            raise OutOfReach(f"mutation of symbolic list ({name})")
        if name == "index" or name == "count":
            return [(st, fresh("int", name))]
    if k == "tuple":
        if name == "index" or name == "count":
            return [(st, fresh("int", name))]
    if k == "set" or k == "sset":
        return [(st, vopq("set." + name))]
    if k == "path":
        if name == "resolve":
            return [(st, V("path", fresh_name("path")))]
        return [(st, vopq("path." + name))]
    if k == "sseq":
        return [(st, vopq("seq." + name))]
    if k == "float" or k == "int":
        return [(st, vopq("num." + name))]
    if x.mode == "frame":
        return [(st, vopq("m"))]
    raise OutOfReach(f"method {k}.{name} (line {node.lineno})")


def ghost_method(x, st, field, name, pos, kw, node):
    if field == getattr(x.c, "node_stack", None):
        from . import pnodes
        return pnodes.method(x, st, field, name, pos, kw, node)
    g = st.ghost[field]
    if g.k == "sseq":
        if name == "append":
            t = x.as_str(pos[0])
            if t is None:
                t = z3.String(fresh_name("pushed"))
            st.ghost[field] = V("sseq", z3.Concat(g.t, z3.Unit(t)))
            return [(st, NONE)]
        if name == "pop" and not pos:
            L = z3.Length(g.t)
            top = g.t[L - 1]
            newseq = z3.simplify(z3.SubSeq(g.t, 0, L - 1))
            # structural simplification: Concat(a, Unit(b)).pop() == a
            if z3.is_app(g.t) and g.t.decl().kind() == z3.Z3_OP_SEQ_CONCAT and g.t.num_args() >= 2:
                last = g.t.arg(g.t.num_args() - 1)
                if z3.is_app(last) and last.decl().kind() == z3.Z3_OP_SEQ_UNIT:
                    rest = [g.t.arg(i) for i in range(g.t.num_args() - 1)]
                    newseq = rest[0] if len(rest) == 1 else z3.Concat(*rest)
                    top = last.arg(0)
            x.on_ghost_pop(st, field, g.t, newseq, node)
            st.ghost[field] = V("sseq", newseq)
            return [(st, vstr(top))]
        if name in ("clear",):
            st.ghost[field] = V("sseq", z3.Empty(SeqS))
            x.on_ghost_write(st, field, node)
            return [(st, NONE)]
        if name in ("copy", "index", "count"):
            return [(st, vopq("seq." + name))]
        x.oblige("frame", node, st, z3.BoolVal(False), detail=f"unmodelled mutation {name} of tracked field {field}")
        return [(st, vopq())]
    if g.k == "glist":
        if name == "append":
            st.ghost[field] = V("glist", (g.t[0], g.t[1] + [pos[0]]))
            return [(st, NONE)]
        if name == "clear":
            st.ghost[field] = V("glist", (None, []))
            return [(st, NONE)]
        if name == "extend":
            st.ghost[field] = V("glist", (fresh_name("unk_" + field), []))
            return [(st, NONE)]
        x.oblige("frame", node, st, z3.BoolVal(False), detail=f"unmodelled mutation {name} of tracked field {field}")
        return [(st, vopq())]
    return [(st, vopq())]


def list_method(x, st, recv, o: HList, name, pos, kw, node):
    if name == "append":
        if o.items is not None:
            o.items.append(pos[0])
        elif o.length is not None:
            o.length = o.length + 1
            o.arr = None
        return [(st, NONE)]
    if name == "extend":
        items = concrete_items(x, st, pos[0])
        if o.items is not None and items is not None:
            o.items.extend(items)
        else:
            o.forget()
        return [(st, NONE)]
    if name == "pop":
        if o.items is not None and not pos:
            if o.items:
                return [(st, o.items.pop())]
            return x.check_v(st, z3.BoolVal(False), "IndexError", node, lambda s: [(s, vopq())])
        (o.forget() if pos else None)
        ek = o.elem
        if x.mode == "value":
            return x.check_v(st, z3.Bool(fresh_name("nonempty")), "IndexError", node,
                             lambda s: [(s, fresh(ek if ek in ("str", "int", "bool") else "opq", "popped"))])
        return [(st, vopq("popped"))]
    if name in ("insert", "remove", "clear", "sort", "reverse"):
        if name == "clear":
            o.items = []
        else:
            o.forget()
        if name == "remove" and x.mode == "value":
            return x.check_v(st, z3.Bool(fresh_name("present")), "ValueError", node, lambda s: [(s, NONE)])
        return [(st, NONE)]
    if name == "copy":
        return [(st, x.alloc(st, o.copy()))]
    if name in ("index", "count"):
        return [(st, fresh("int", name))]
    if x.mode == "frame":
        return [(st, vopq("l." + name))]
    raise OutOfReach(f"list method {name}")


def dict_method(x, st, recv, o: HDict, name, pos, kw, node):
    if name == "get":
        c = x.const_of(pos[0])
        dflt = pos[1] if len(pos) > 1 else NONE
        if o.items is not None and c is not None and all(x.const_of(k) is not None for k, _ in o.items):
            for k, v in reversed(o.items):
                if x.const_of(k) == c:
                    return [(st, v)]
            return [(st, dflt)]
        has = z3.Bool(fresh_name("has_key"))
        return [(st.fork(has), vopq("dv")), (st.fork(z3.Not(has)), dflt)]
    if name in ("items", "keys", "values"):
        if o.items is not None:
            if name == "items":
                return [(st, x.alloc(st, HList([V("tuple", (k, v)) for k, v in o.items])))]
            if name == "keys":
                return [(st, x.alloc(st, HList([k for k, _ in o.items])))]
            return [(st, x.alloc(st, HList([v for _, v in o.items])))]
        return [(st, vopq("d." + name))]
    if name in ("update", "clear", "pop", "setdefault", "popitem"):
        o.items = [] if name == "clear" else None
        return [(st, vopq("d." + name))]
    if name == "copy":
        return [(st, x.alloc(st, o.copy()))]
    if x.mode == "frame":
        return [(st, vopq("d." + name))]
    raise OutOfReach(f"dict method {name}")


# ---------------------------------------------------------------- module functions

LIB_STR_RESULT = {"mediawiki_langcodes.code_to_name", "mediawiki_langcodes.name_to_code"}

TOTAL_STR_FNS = {
    "html.escape", "html.unescape", "urllib.parse.quote", "urllib.parse.quote_plus",
    "urllib.parse.unquote", "urllib.parse.unquote_plus", "re.escape",
}


def call_module_fn(x, st, name, pos, kw, node, chain):
    a0 = pos[0] if pos else None
    if name in TOTAL_STR_FNS:
        fn = z3.Function("py_" + name.replace(".", "_"), S, S)
        t = x.as_str(a0) if a0 is not None else None
        extra = [kw[k] for k in sorted(kw)] + list(pos[1:])
        cs = [x.const_of(e) for e in extra]
        if t is not None and all(c is not None for c in cs):
            sig = "_".join(repr(c[0]) for c in cs)
            fn = z3.Function("py_" + name.replace(".", "_") + "!" + sig, S, S)
            return [(st, vstr(fn(t)))]
        return [(st, fresh("str", name))]
    if name == "unicodedata.normalize":
        return [(st, fresh("str", "nfc"))]
    if name.startswith("re."):
        return call_re(x, st, name[3:], pos, kw, node, chain)
    if name.startswith("math."):
        fn = name[5:]
        if fn in ("e", "pi"):
            return [(st, fresh("float"))]
        if x.mode == "value":
            return x.check_v(st, z3.Bool(fresh_name("math_domain_ok")), "ValueError", node,
                             lambda s: [(s, fresh("float"))])
        return [(st, fresh("float"))]
    if name.startswith(("datetime.", "dateparser.", "traceback.", "json.", "logging.", "sys.",
                        "mediawiki_langcodes", "lupa", "time.", "os.", "shutil.", "sqlite3.",
                        "tempfile.", "functools.", "collections.", "importlib.", "pathlib.",
                        "urllib.", "html.", "unicodedata.", "typing.", "requests.")):
        x.assumptions.add(f"library call {name} assumed total and effect-free on tracked state")
        if name.endswith(("strftime", "isoformat", "format_exception")) or name in LIB_STR_RESULT:
            return [(st, fresh("str", "lib"))]
        return [(st, V("lib", name))]
    if name.startswith("pkg."):
        # from . import module ; module.fn(...)
        parts = name.split(".")
        if len(parts) == 3:
            try:
                v = x._module_name(loader.module(parts[1]), parts[2])
            except FileNotFoundError:
                v = None
            if v is not None:
                return call(x, st, v, pos, kw, node, chain)
    if x.mode == "frame":
        return [(st, vopq("modfn:" + name))]
    raise OutOfReach(f"module function {name} (line {node.lineno})")


def call_re(x, st, fn, pos, kw, node, chain):
    if fn in ("match", "search", "fullmatch"):
        pat, s = pos[0], pos[1]
        from . import regex_contracts
        c = x.const_of(pat)
        nomatch = regex_contracts.no_match_condition(x, c[0], fn, s) if c else None
        s_yes = st.fork()
        m = make_match(x, s_yes, pat, s, node, fn)
        if nomatch is not None:
            s_yes.pc.append(z3.Not(nomatch))
            return [(st.fork(nomatch), NONE), (s_yes, m)]
        b = z3.Bool(fresh_name("re_matches"))
        s_yes.pc.append(b)
        return [(st.fork(z3.Not(b)), NONE), (s_yes, m)]
    if fn == "sub" or fn == "subn":
        repl = pos[1]
        out_st = st
        if repl.k == "func":
            # the replacement function runs on an arbitrary match: collect its
            # obligations once; ghost fields must be unchanged
            s2 = st.fork()
            g0 = dict(s2.ghost)
            m = make_match(x, s2, pos[0], pos[2] if len(pos) > 2 else None, node, "search")
            for s3, r in call(x, s2, repl, [m], {}, node, chain):
                if r.k == "raise":
                    if x.mode == "value":
                        x.oblige("safety", node, s3, z3.BoolVal(False), exc=r.t[0],
                                 detail="replacement function raises")
                    continue
                x.check_ghost_unchanged(s3, g0, node, "re.sub replacement function")
        r = fresh("str", "resub")
        src = pos[2] if len(pos) > 2 else None
        from . import regex_contracts
        c = x.const_of(pos[0])
        if c is not None and src is not None and src.k == "str":
            regex_contracts.apply_sub(x, out_st, c[0], repl, src, r)
        x.log_call(out_st, "re." + fn, pos, r, kw)
        return [(out_st, r)]
    if fn == "split":
        return [(st, x.alloc(st, HList(None, "str", 1)))]
    if fn == "finditer" or fn == "findall":
        r = V("matchiter", (pos[0], pos[1] if len(pos) > 1 else None))
        x.log_call(st, "re." + fn, pos, r, kw)
        return [(st, r)]
    if fn == "escape":
        return [(st, fresh("str", "esc"))]
    if fn == "compile":
        return [(st, V("opq", fresh_name("regex")))]
    if x.mode == "frame":
        return [(st, vopq("re." + fn))]
    raise OutOfReach(f"re.{fn}")


def spec_builtin(x, st, name, pos, kw, node):
    """functions available in contract clauses only"""
    def g(v):
        return st.ghost[v.t] if v.k == "gref" else v
    if name == "call_kw":
        cn = x.const_of(pos[0])[0]
        i = x.const_of(pos[1])[0]
        kn = x.const_of(pos[2])[0]
        ents = [e for e in st.log if e and e[0] == "call" and e[1] == cn]
        kws = dict(ents[i][4]) if (-len(ents) <= i < len(ents)) and len(ents[i]) > 4 else {}
        if kn not in kws:
            return [(st, RAISE("ClauseError", f"no logged call #{i} of {cn} with keyword {kn}"))]
        return [(st, kws[kn])]
    if name in ("call_result", "call_arg"):
        cn = x.const_of(pos[0])[0]
        i = x.const_of(pos[1])[0]
        ents = [e for e in st.log if e and e[0] == "call" and e[1] == cn]
        if not (-len(ents) <= i < len(ents)):
            return [(st, RAISE("ClauseError", f"no logged call #{i} of {cn}"))]
        if name == "call_result":
            return [(st, ents[i][3] if ents[i][3] is not None else NONE)]
        j = x.const_of(pos[2])[0]
        if j >= len(ents[i][2]):
            return [(st, RAISE("ClauseError", "no such argument"))]
        return [(st, ents[i][2][j])]
    if name == "tainted_calls":
        # tainted_calls(tag, name1, name2, ...): logged calls of those names with an argument carrying the tag
        tag = x.const_of(pos[0])[0]
        names = {x.const_of(p)[0] for p in pos[1:]}

        def has(v):
            if v is None:
                return False
            if v.tags and tag in v.tags:
                return True
            if v.k == "tuple":
                return any(has(e) for e in v.t)
            if v.k == "ref":
                its = getattr(st.heap.get(v.t), "items", None)
                if its:
                    return any(has(e if not isinstance(e, tuple) else e[1]) for e in its)
            return False
        n = sum(1 for e in st.log if e and e[0] == "call" and e[1] in names and any(has(a) for a in e[2]))
        return [(st, vint(n))]
    if name == "derived":
        a, b = pos[0], pos[1]
        m = x.const_of(pos[2])[0]
        if a.k == "str" and b.k == "str":
            f = {"strip": smt.f_strip, "lstrip": smt.f_lstrip, "rstrip": smt.f_rstrip,
                 "lower": smt.f_lower, "upper": smt.f_upper}[m]
            return [(st, vbool(a.t.eq(f(b.t))))]
        return [(st, vbool(a.k == "opq" and b.k == "opq" and a.t == f"{b.t}.{m}()"))]
    if name == "same_object":
        a, b = pos
        if a.k == b.k and a.k in ("str", "int", "bool") :
            return [(st, vbool(a.t.eq(b.t)))]
        return [(st, vbool(a.k == b.k and (a.t is b.t or (a.k in ("ref", "opq") and a.t == b.t))))]
    if name == "memo_coherent":
        return [(st, st.ghost.get("memo_valid", vbool(True)))]
    if name in ("sql_count", "sql_kind", "sql_text", "sql_params"):
        log = st.ghost.get("sql_log", V("sqllog", ())).t
        if name == "sql_count":
            if pos:
                c = x.const_of(pos[0])
                return [(st, vint(sum(1 for e in log if e[0] == c[0])))]
            return [(st, vint(len(log)))]
        c = x.const_of(pos[0])
        if c is None or not (-len(log) <= c[0] < len(log)):
            return [(st, RAISE("ClauseError", "no such SQL log entry"))]
        e = log[c[0]]
        if name == "sql_kind":
            return [(st, vstr(e[0]))]
        if name == "sql_text":
            return [(st, vstr(e[1] or "?"))]
        return [(st, e[3])]
    if name == "parses_as_int":
        return [(st, vbool(z3.InRe(pos[0].t, smt.RE_INT_OK())))]
    if name == "expr_value":
        return [(st, vstr(z3.Function("expr_value", S, S)(pos[0].t)))]
    if name == "prefix":
        a, b = g(pos[0]), g(pos[1])
        return [(st, vbool(z3.PrefixOf(a.t, b.t)))]
    if name == "implies":
        return [(st, vbool(z3.Implies(x.truth_st(pos[0], st), x.truth_st(pos[1], st))))]
    if name == "is_str":
        return [(st, vbool(pos[0].k == "str"))]
    if name == "is_none":
        return [(st, vbool(pos[0].k == "none"))]
    if name == "seq_len":
        return [(st, vint(z3.Length(g(pos[0]).t)))]
    if name == "appended":
        # appended(new, old): the tuple of records appended to a message list,
        # or a failing clause when the list was rebuilt
        new, old = g(pos[0]), g(pos[1])
        if new.k == "glist" and old.k == "glist" and new.t[0] == old.t[0] and \
                len(new.t[1]) >= len(old.t[1]) and all(p is q for p, q in zip(new.t[1], old.t[1])):
            return [(st, V("tuple", tuple(new.t[1][len(old.t[1]):])))]
        return [(st, RAISE("ClauseError", "list is not old ++ appended"))]
    if name == "keys_of":
        v = pos[0]
        if v.k == "ref" and isinstance(st.heap[v.t], HDict) and st.heap[v.t].items is not None:
            ks = [x.const_of(k) for k, _ in st.heap[v.t].items]
            if all(k is not None for k in ks):
                return [(st, V("set", frozenset(k[0] for k in ks)))]
        return [(st, RAISE("ClauseError", "keys unknown"))]
    if name == "logged":
        # logged("name"): number of ghost-log entries for calls of that name
        c = x.const_of(pos[0])
        n = sum(1 for ent in st.log if ent and (ent[0] == c[0] or (ent[0] == "call" and ent[1] == c[0])))
        return [(st, vint(n))]
    raise OutOfReach("spec builtin " + name)
