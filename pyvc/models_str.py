"""pyvc.models_str -- str methods.  Precise where z3's sequence theory has the
operation; uninterpreted (with the listed axioms) for strip/lower/upper;
fresh results (total, no facts) where nothing is needed."""
from __future__ import annotations

import z3

from . import loader, smt
from .smt import S, I


def str_method(x, st, recv, name, pos, kw, node, chain):
    from .vx import V, NONE, fresh, fresh_name, vint, vbool, vstr, vopq, OutOfReach, HList
    s = recv.t
    a0 = pos[0] if pos else None

    def strarg(i=0):
        if len(pos) > i:
            return x.as_str(pos[i])
        return None

    if name in ("strip", "lstrip", "rstrip") and not pos:
        f = {"strip": smt.f_strip, "lstrip": smt.f_lstrip, "rstrip": smt.f_rstrip}[name]
        r = f(s)
        st.pc.append(z3.Length(r) <= z3.Length(s))
        st.pc.append(z3.Contains(s, r))
        if name == "lstrip":
            st.pc.append(z3.SuffixOf(r, s))
        if name == "rstrip":
            st.pc.append(z3.PrefixOf(r, s))
        if z3.is_string_value(s):
            import builtins
            return [(st, vstr(getattr(smt._z3str_to_py(s), name)()))]
        return [(st, vstr(r))]
    if name in ("strip", "lstrip", "rstrip"):
        r = fresh("str", name)
        st.pc.append(z3.Length(r.t) <= z3.Length(s))
        st.pc.append(z3.Contains(s, r.t))
        return [(st, r)]
    if name in ("lower", "upper", "casefold", "capitalize", "title", "swapcase"):
        if z3.is_string_value(s):
            return [(st, vstr(getattr(smt._z3str_to_py(s), name)()))]
        f = {"lower": smt.f_lower, "upper": smt.f_upper}.get(name)
        if f is None:
            f = z3.Function("py_" + name, S, S)
        r = f(s)
        st.pc.append(z3.Implies(z3.Length(s) == 0, z3.Length(r) == 0))
        st.pc.append(z3.Implies(z3.Length(s) > 0, z3.Length(r) > 0))
        # case mapping never creates or removes ASCII punctuation (only cased letters change)
        st.pc.append(z3.Contains(r, z3.StringVal(":")) == z3.Contains(s, z3.StringVal(":")))
        return [(st, vstr(r))]
    if name in ("startswith", "endswith"):
        op = z3.PrefixOf if name == "startswith" else z3.SuffixOf
        if len(pos) > 1:
            return [(st, vbool(z3.Bool(fresh_name(name))))]
        if a0.k == "symtuple":
            # s.startswith(T) for a symbolic tuple T whose elements all end with T.suffix:
            # True => some element p of T is a prefix of s (Skolem witness p)
            b = z3.Bool(fresh_name("startswith_any"))
            p = z3.String(fresh_name("pfx"))
            suf = z3.StringVal(a0.t["suffix"])
            st.pc.append(z3.Implies(b, z3.And(op(p, s), z3.SuffixOf(suf, p), z3.Length(p) >= z3.Length(suf))))
            st.pc.append(z3.Implies(b, z3.Contains(s, suf)))     # consequence, stated to keep the query easy
            return [(st, vbool(b))]
        if a0.k == "tuple":
            ts = [x.as_str(e) for e in a0.t]
            if all(t is not None for t in ts):
                return [(st, vbool(z3.Or(*[op(t, s) for t in ts]) if ts else z3.BoolVal(False)))]
        t = strarg()
        if t is not None:
            return [(st, vbool(op(t, s)))]
        return [(st, vbool(z3.Bool(fresh_name(name))))]
    if name in ("removeprefix", "removesuffix"):
        t = strarg()
        if t is not None:
            if name == "removeprefix":
                r = z3.If(z3.PrefixOf(t, s), z3.SubString(s, z3.Length(t), z3.Length(s) - z3.Length(t)), s)
            else:
                r = z3.If(z3.SuffixOf(t, s), z3.SubString(s, 0, z3.Length(s) - z3.Length(t)), s)
            return [(st, vstr(r))]
    if name in ("isdigit", "isdecimal", "isspace", "isalnum", "isnumeric", "isalpha"):
        cls = {"isdigit": "digit", "isdecimal": "decimal", "isspace": "space", "isalnum": "alnum"}.get(name)
        if cls:
            return [(st, vbool(z3.InRe(s, z3.Plus(smt.RE(cls)))))]
        return [(st, vbool(z3.Bool(fresh_name(name))))]
    if name == "find" and pos:
        t = strarg()
        if t is not None:
            if len(pos) == 1:
                return [(st, vint(z3.IndexOf(s, t, 0)))]
            if len(pos) == 2 and pos[1].k == "int":
                # Python: s.find(t, start) with start clamped; start > len => -1
                L = z3.Length(s)
                o = pos[1].t
                o2 = z3.If(o < 0, z3.If(L + o < 0, 0, L + o), o)
                return [(st, vint(z3.If(o2 > L, -1, z3.IndexOf(s, t, o2))))]
        r = fresh("int", "find")
        st.pc.append(z3.And(r.t >= -1, r.t < z3.If(z3.Length(s) == 0, 1, z3.Length(s) + 1)))
        return [(st, r)]
    if name == "rfind" and pos:
        t = strarg()
        L = z3.Length(s)
        if t is not None and len(pos) == 1:
            return [(st, vint(z3.LastIndexOf(s, t)))]
        r = fresh("int", "rfind")
        st.pc.append(z3.And(r.t >= -1, r.t <= L))
        if t is not None and len(pos) == 2 and pos[1].k == "int":
            # s.rfind(t, start): start <= 0 (after clamping) searches the whole string
            o = pos[1].t
            st.pc.append(z3.Implies(z3.Or(o == 0, o <= -L), r.t == z3.LastIndexOf(s, t)))
            st.pc.append(z3.Implies(r.t >= 0, z3.And(r.t + z3.Length(t) <= L,
                                                      z3.SubString(s, r.t, z3.Length(t)) == t)))
        return [(st, r)]
    if name == "index" and pos:
        t = strarg()
        if t is not None and len(pos) == 1:
            return x.check_v(st, z3.Contains(s, t), "ValueError", node,
                             lambda s2: [(s2, vint(z3.IndexOf(s, t, 0)))])
        return x.check_v(st, z3.Bool(fresh_name("substr_present")), "ValueError", node,
                         lambda s2: [(s2, fresh("int", "index"))])
    if name == "count":
        r = fresh("int", "count")
        st.pc.append(r.t >= 0)
        t = strarg()
        if t is not None:
            st.pc.append((r.t == 0) == z3.Not(z3.Contains(s, t)))
        return [(st, r)]
    if name == "replace" and len(pos) >= 2:
        t, u = strarg(0), strarg(1)
        if t is not None and u is not None and len(pos) == 2:
            # replace_all; Python's "".replace("", u) inserts between chars: the
            # empty-pattern case is left uninterpreted
            r = z3.If(z3.Length(t) == 0, z3.Function("py_replace_empty", S, S, S)(s, u),
                      _replace_all(s, t, u))
            if z3.is_string_value(t) and z3.is_string_value(u):
                ct, cu = smt._z3str_to_py(t), smt._z3str_to_py(u)
                if len(ct) == 1 and len(cu) == 1:
                    # single character replaced by a single character: length and every occurrence of a
                    # constant that contains neither character are preserved (axioms of the uninterpreted symbol)
                    ra = _replace_all(s, t, u)
                    st.pc.append(z3.Length(ra) == z3.Length(s))
                    for k in (":", "Main:"):
                        if ct not in k and cu not in k:
                            kv = z3.StringVal(k)
                            st.pc.append(z3.Contains(ra, kv) == z3.Contains(s, kv))
                            st.pc.append(z3.PrefixOf(kv, ra) == z3.PrefixOf(kv, s))
                    st.pc.append(z3.Implies(z3.Not(z3.Contains(s, t)), ra == s))
            return [(st, vstr(r))]
        return [(st, fresh("str", "repl"))]
    if name == "join":
        items = None
        if a0 is not None:
            from . import models
            items = models.concrete_items(x, st, a0)
        if items is not None:
            ts = [x.as_str(e) for e in items]
            if all(t is not None for t in ts) and all(e.k == "str" for e in items):
                acc = []
                for i, t in enumerate(ts):
                    if i:
                        acc.append(s)
                    acc.append(t)
                if not acc:
                    return [(st, vstr(""))]
                return [(st, vstr(acc[0] if len(acc) == 1 else z3.Concat(*acc)))]
            if x.mode == "value" and any(e.k not in ("str", "opq") for e in items):
                return x.check_v(st, z3.BoolVal(False), "TypeError", node, lambda s2: [(s2, fresh("str"))])
        if a0 is not None and a0.k == "strlist":
            return [(st, vstr(z3.Function("py_join", S, z3.ArraySort(I, S), I, I, S)(
                s, a0.t["arr"], a0.t["off"], a0.t["len"])))]
        if a0 is not None and a0.k == "sseq":
            # d.join(pieces) over an abstract sequence of strings: an uninterpreted function shared by code and spec
            from .vx import SeqS
            return [(st, vstr(_ack(st, "join", (s, a0.t), S)))]
        if a0 is not None and a0.k == "revchars":
            r = fresh("str", "rev")
            st.pc.append(z3.Length(r.t) == z3.Length(a0.t))
            return [(st, r)]
        if x.mode == "value" and a0 is not None and a0.k == "ref":
            o = st.heap[a0.t]
            if isinstance(o, HList) and o.items is None and o.elem not in ("str",):
                x.assumptions.add(f"join over a list with unmodelled element kind assumed str: {loader.norm(node)[:60]}")
        return [(st, fresh("str", "join"))]
    if name == "split" or name == "rsplit" or name == "splitlines":
        minlen = 1 if (pos and name != "splitlines") else 0
        if (x.mode == "value" and name == "split" and len(pos) == 1 and pos[0].k == "str" and not kw
                and getattr(x.c, "seq_split", False)):
            from .vx import SeqS

            def mk(s2):
                seq = _ack(s2, "split", (s, pos[0].t), SeqS)
                s2.pc.append(z3.Length(seq) >= 1)       # split with a non-empty separator yields at least one piece
                return [(s2, V("sseq", seq))]
            return x.check_v(st, z3.Length(pos[0].t) > 0, "ValueError", node, mk)
        if x.mode == "value" and pos and pos[0].k == "str" and name != "splitlines":
            # s.split(sep) raises ValueError for an empty separator
            return x.check_v(st, z3.Length(pos[0].t) > 0, "ValueError", node,
                             lambda s2: [(s2, x.alloc(s2, HList(None, "str", minlen)))])
        return [(st, x.alloc(st, HList(None, "str", minlen)))]
    if name == "format":
        return format_call(x, st, recv, pos, kw, node)
    if name == "encode":
        return [(st, V("bytes", s))]
    if name in ("zfill", "ljust", "rjust", "center", "expandtabs", "translate", "format_map"):
        return [(st, fresh("str", name))]
    if name == "partition" or name == "rpartition":
        if len(pos) == 1 and pos[0].k == "str":
            sep = pos[0].t
            a, b = fresh("str", "part_a"), fresh("str", "part_b")
            found = z3.Contains(s, sep)
            st_y, st_n = st.fork(found), st.fork(z3.Not(found))
            st_y.pc.append(s == z3.Concat(a.t, sep, b.t))
            # the separator occurrence chosen is the first (partition) / the last (rpartition) one
            st_y.pc.append(z3.Not(z3.Contains(z3.Concat(a.t, z3.SubString(sep, 0, z3.Length(sep) - 1)), sep))
                           if name == "partition" else
                           z3.Not(z3.Contains(z3.Concat(z3.SubString(sep, 1, z3.Length(sep) - 1), b.t), sep)))
            empty = vstr("")
            miss = (V("tuple", (vstr(s), empty, empty)) if name == "partition" else V("tuple", (empty, empty, vstr(s))))
            outs = [(st_y, V("tuple", (a, vstr(sep), b))), (st_n, miss)]
            if x.mode == "value":
                # an empty separator raises ValueError
                return [o for o in outs] if z3.is_string_value(sep) and sep.as_string() != "" else \
                    x.check_v(st, z3.Length(sep) > 0, "ValueError", node, lambda s2: outs)
            return outs
        return [(st, V("tuple", (fresh("str"), fresh("str"), fresh("str"))))]
    if x.mode == "frame":
        return [(st, vopq("str." + name))]
    raise OutOfReach(f"str method {name} (line {node.lineno})")


_ACK: dict = {}


def _ack(st, fname, args, sort):
    """an uninterpreted function application with sequence-sorted argument or result, Ackermannized: one
    constant per distinct argument tuple plus explicit congruence with every earlier application (z3's sequence
    solver is incomplete with such functions, but decides the expanded form)"""
    key = (fname,) + tuple(a.get_id() for a in args)
    hit = _ACK.get(key)
    if hit is None:
        c = z3.Const(f"py_{fname}!{len(_ACK)}", sort)
        hit = _ACK[key] = (c, args)
    c = hit[0]
    for k2, (c2, args2) in _ACK.items():
        if k2[0] == fname and k2 != key:
            st.pc.append(z3.Implies(z3.And(*[a == b for a, b in zip(args, args2)]), c == c2))
    return c


def _mk(lst):
    from .vx import HList
    n = HList(None, lst.elem)
    n.minlen = getattr(lst, "minlen", 0)
    return n


def _replace_all(s, t, u):
    try:
        return z3.ReplaceAll(s, t, u) if hasattr(z3, "ReplaceAll") else z3.Function("py_replace_all", S, S, S, S)(s, t, u)
    except Exception:
        return z3.Function("py_replace_all", S, S, S, S)(s, t, u)


def format_call(x, st, recv, pos, kw, node):
    """'...{}...'.format(args): precise when the template is a literal made of
    plain text and '{}' fields and every argument has a modelled str()."""
    from .vx import fresh, vstr
    if z3.is_string_value(recv.t) and not kw:
        tmpl = smt._z3str_to_py(recv.t)
        import re
        if not re.search(r"\{[^}]+\}", tmpl) and "{{" not in tmpl and "}}" not in tmpl:
            parts = tmpl.split("{}")
            if len(parts) - 1 == len(pos):
                acc = []
                ok = True
                for i, p in enumerate(parts):
                    if p:
                        acc.append(z3.StringVal(p))
                    if i < len(pos):
                        t = x._to_strterm(pos[i], st)
                        if t is None:
                            ok = False
                            break
                        acc.append(t)
                if ok:
                    if not acc:
                        return [(st, vstr(""))]
                    return [(st, vstr(acc[0] if len(acc) == 1 else z3.Concat(*acc)))]
            elif x.mode == "value":
                return x.check_v(st, z3.BoolVal(len(parts) - 1 <= len(pos)), "IndexError", node,
                                 lambda s2: [(s2, fresh("str", "fmt"))])
    return [(st, fresh("str", "fmt"))]
