"""pyvc.pnodes -- ghost model of the parser's node stack (C01).

Enabled per contract with `node_stack="parser_stack"`.  The list
`ctx.parser_stack` of WikiNode objects is viewed as the z3 sequence of the
*names of their kinds* (ghost field, Seq(String)); everything else about a
node is opaque.

  V("kind", term)          a NodeKind member, by name (z3 String term)
  V("kindset", frozenset)  a concrete set of member names (A | B, FLAGS & ~X,
                           keys of a module-level dict keyed by kinds)
  V("pnode", (kind term, position term | None, generation))
                           a node read from / created for the stack; `generation`
                           is the id of the ghost sequence term it was read from, so
                           that `node.kind = K` can be written through while the
                           stack has not changed in between
"""
from __future__ import annotations

import ast

import z3

from . import loader
from .vx import V, NONE, OutOfReach, SeqS, fresh, fresh_name, vbool, vint, vopq, vstr

NODE_CLASSES = {"WikiNode": None, "TemplateNode": "TEMPLATE", "HTMLNode": "HTML", "LevelNode": None}
_universe_cache: dict = {}
_KIND_TERMS: dict = {}       # ids of symbolic one-character kind terms (kept alive)


def enabled(x) -> str:
    return getattr(x.c, "node_stack", "") or ""


def universe() -> tuple:
    """member names of parser.NodeKind, from the class body"""
    if "u" not in _universe_cache:
        mod = loader.module("parser")
        cls = mod.top["NodeKind"]
        names = []
        for s in cls.body:
            if isinstance(s, ast.Assign) and len(s.targets) == 1 and isinstance(s.targets[0], ast.Name) \
                    and isinstance(s.value, ast.Call) and loader.norm(s.value.func) == "enum.auto":
                names.append(s.targets[0].id)
        _universe_cache["u"] = tuple(names)
    return _universe_cache["u"]


def code(name: str) -> str:
    """one character per NodeKind member: the node stack is a z3 string with one character per node (the
    string solvers decide containment / prefix questions that the generic sequence theory leaves open)"""
    i = universe().index(name)
    return chr(ord("A") + i) if i < 26 else chr(ord("a") + i - 26)


def decode(ch: str) -> str:
    for n in universe():
        if code(n) == ch:
            return n
    return "?" + ch


def kind(name: str) -> V:
    return V("kind", z3.StringVal(code(name)))


def kind_names(v: V):
    """concrete member names denoted by a kind / kindset value, else None"""
    if v.k == "kindset":
        return v.t
    if v.k == "leveltab":
        return frozenset(n for n, _ in v.t)
    if v.k == "kind" and z3.is_string_value(v.t):
        return frozenset([decode(v.t.as_string())])
    return None


def member_of(term, names) -> z3.BoolRef:
    return z3.Or(*[term == z3.StringVal(code(n)) for n in sorted(names)]) if names else z3.BoolVal(False)


def fresh_kind(st, hint="k"):
    k = z3.String(fresh_name(hint))
    st.pc.append(z3.Length(k) == 1)
    _KIND_TERMS[k.get_id()] = k
    return k


# ------------------------------------------------------------------ module-level constants

def kind_const(x, mod, node, depth=0):
    """evaluate a module-level expression over NodeKind members: NodeKind.X, |, &, ~, names of other such
    constants, tuples; a dict display / comprehension keyed by kinds yields the set of its keys.  None when the
    expression is something else."""
    if depth > 6:
        return None
    if isinstance(node, ast.Attribute) and isinstance(node.value, ast.Name) and node.value.id == "NodeKind":
        if node.attr in universe():
            return frozenset([node.attr])
        return None
    if isinstance(node, ast.BinOp) and isinstance(node.op, (ast.BitOr, ast.BitAnd)):
        a, b = kind_const(x, mod, node.left, depth + 1), kind_const(x, mod, node.right, depth + 1)
        if a is None or b is None:
            return None
        return (a | b) if isinstance(node.op, ast.BitOr) else (a & b)
    if isinstance(node, ast.UnaryOp) and isinstance(node.op, ast.Invert):
        a = kind_const(x, mod, node.operand, depth + 1)
        return None if a is None else frozenset(universe()) - a
    if isinstance(node, ast.Name) and node.id in mod.top:
        tgt = mod.top[node.id]
        if isinstance(tgt, (ast.Assign, ast.AnnAssign)) and tgt.value is not None:
            return kind_const(x, mod, tgt.value, depth + 1)
        return None
    if isinstance(node, ast.Tuple):
        parts = [kind_const(x, mod, e, depth + 1) for e in node.elts]
        if parts and all(p is not None for p in parts):
            return frozenset().union(*parts)
    return None


def _str_kind_dict(mod, node):
    """{"=": NodeKind.LEVEL1, ...}: constant str keys, NodeKind member values"""
    if not isinstance(node, ast.Dict) or not node.keys:
        return None
    out = {}
    for k, v in zip(node.keys, node.values):
        if not (isinstance(k, ast.Constant) and isinstance(k.value, str)):
            return None
        if not (isinstance(v, ast.Attribute) and isinstance(v.value, ast.Name) and v.value.id == "NodeKind"
                and v.attr in universe()):
            return None
        out[k.value] = v.attr
    return out


def level_table(mod, name, node):
    """KIND_TO_LEVEL = {v: len(k) for k, v in SUBTITLE_TO_KIND.items()} followed by module-level
    KIND_TO_LEVEL[NodeKind.X] = <int> statements: the table, evaluated from the source; None if the shape differs"""
    if not isinstance(node, ast.DictComp) or len(node.generators) != 1:
        return None
    g = node.generators[0]
    if g.ifs or not (isinstance(g.target, ast.Tuple) and len(g.target.elts) == 2
                     and all(isinstance(e, ast.Name) for e in g.target.elts)):
        return None
    kn, vn = g.target.elts[0].id, g.target.elts[1].id
    it = g.iter
    if not (isinstance(it, ast.Call) and isinstance(it.func, ast.Attribute) and it.func.attr == "items"
            and isinstance(it.func.value, ast.Name) and not it.args):
        return None
    src = mod.top.get(it.func.value.id)
    if not isinstance(src, (ast.Assign, ast.AnnAssign)) or src.value is None:
        return None
    base = _str_kind_dict(mod, src.value)
    if base is None:
        return None
    if not (isinstance(node.key, ast.Name) and node.key.id == vn and isinstance(node.value, ast.Call)
            and isinstance(node.value.func, ast.Name) and node.value.func.id == "len"
            and len(node.value.args) == 1 and isinstance(node.value.args[0], ast.Name)
            and node.value.args[0].id == kn):
        return None
    tab = {v: len(k) for k, v in base.items()}
    # later module-level updates of the same table
    for stmt in mod.tree.body:
        if isinstance(stmt, ast.Assign) and len(stmt.targets) == 1 and isinstance(stmt.targets[0], ast.Subscript):
            t = stmt.targets[0]
            if isinstance(t.value, ast.Name) and t.value.id == name:
                ks = kind_const(None, mod, t.slice)
                if ks is None or len(ks) != 1 or not (isinstance(stmt.value, ast.Constant) and isinstance(stmt.value.value, int)):
                    return None
                tab[next(iter(ks))] = stmt.value.value
        elif any(isinstance(n, ast.Name) and n.id == name and isinstance(n.ctx, (ast.Store, ast.Del))
                 for n in ast.walk(stmt)) and not (isinstance(stmt, (ast.Assign, ast.AnnAssign))
                                                   and stmt is mod.top.get(name)):
            return None
    return tab


def module_constant(x, mod, name, node):
    if mod.name != "parser":
        return None
    skd = _str_kind_dict(mod, node)
    if skd is not None:
        return V("kinddict", tuple(sorted(skd.items())))
    lt = level_table(mod, name, node)
    if lt is not None:
        return V("leveltab", tuple(sorted(lt.items())))
    ks = kind_const(x, mod, node)
    if ks is None:
        return None
    if len(ks) == 1 and isinstance(node, ast.Attribute):
        return kind(next(iter(ks)))
    return V("kindset", ks)


# ------------------------------------------------------------------ attributes

def getattr_(x, st, v: V, name: str, node):
    if v.k == "type" and v.t == "NodeKind":
        if name in universe():
            return [(st, kind(name))]
        return None
    if v.k == "pnode":
        if name == "kind":
            return [(st, V("kind", v.t[0]))]
        return [(st, V("opq", f"node!{_nid(v)}.{name}"))]
    if v.k == "kind":
        if name == "name":
            return [(st, fresh("str", "kindname"))]
        return [(st, vopq("kind." + name))]
    if v.k == "kindset":
        return [(st, vopq("kindset." + name))]
    return None


def _nid(v: V) -> str:
    k = v.t[0]
    return str(k.get_id())


def setattr_(x, st, recv: V, name: str, val: V, node) -> bool:
    if recv.k != "pnode":
        return False
    if name != "kind":
        return True                       # other attributes of a node are not modelled
    field = enabled(x)
    kt, pos, gen = recv.t
    g = st.ghost.get(field)
    if val.k != "kind":
        raise OutOfReach("node.kind assigned a non-kind value")
    if pos is None:
        return True                       # a node that is not (yet) on the stack
    if g is None or g.t.get_id() != gen:
        raise OutOfReach(f"node.kind assigned after the stack changed (line {node.lineno})")
    s = g.t
    L = z3.Length(s)
    st.ghost[field] = V("kstr", z3.Concat(z3.SubString(s, 0, pos), val.t, z3.SubString(s, pos + 1, L - pos - 1)))
    return True


# ------------------------------------------------------------------ the stack itself

def _safety(x, st, cond, node, what):
    x.oblige("stack-safety", f"{what} @ {loader.norm(node)[:70]}", st, cond, exc="IndexError")


def index(x, st, field, i: V, node):
    g = st.ghost[field]
    s = g.t
    L = z3.Length(s)
    if i.k not in ("int", "bool"):
        # unknown position: some element
        k = fresh_kind(st, "k_any")
        st.pc.append(z3.Contains(s, k))
        return [(st, V("pnode", (k, None, s.get_id())))]
    it = x.as_int(i)
    idx = z3.If(it < 0, L + it, it)
    _safety(x, st, z3.And(-L <= it, it < L), node, f"{field}[{loader.norm(node.slice) if hasattr(node, 'slice') else '?'}]")
    st.pc.append(z3.And(-L <= it, it < L))
    idx = z3.simplify(idx)
    return [(st, V("pnode", (z3.SubString(s, idx, 1), idx, s.get_id())))]


def method(x, st, field, name, pos, kw, node):
    g = st.ghost[field]
    s = g.t
    L = z3.Length(s)
    if name == "append":
        v = pos[0]
        if v.k != "pnode":
            raise OutOfReach(f"{field}.append of a non-node ({v.k})")
        st.ghost[field] = V("kstr", z3.Concat(s, v.t[0]))
        return [(st, NONE)]
    if name == "pop" and not pos:
        _safety(x, st, L > 0, node, f"{field}.pop()")
        st.pc.append(L > 0)
        top = z3.SubString(s, L - 1, 1)
        newseq = z3.SubString(s, 0, L - 1)
        if z3.is_app(s) and s.decl().kind() == z3.Z3_OP_SEQ_CONCAT and s.num_args() >= 2:
            last = s.arg(s.num_args() - 1)
            if getattr(last, "_is_kind_char", False) or (z3.is_string_value(last) and len(last.as_string()) == 1) \
                    or last.get_id() in _KIND_TERMS:
                rest = [s.arg(j) for j in range(s.num_args() - 1)]
                newseq = rest[0] if len(rest) == 1 else z3.Concat(*rest)
                top = last
        st.ghost[field] = V("kstr", newseq)
        return [(st, V("pnode", (top, None, 0)))]
    if name in ("copy", "index", "count"):
        return [(st, vopq("stack." + name))]
    raise OutOfReach(f"unmodelled mutation {name} of {field}")


def assign(x, st, field, v: V, node) -> bool:
    """ctx.parser_stack = [node] / []"""
    from .vx import HList
    if v.k == "ref" and isinstance(st.heap[v.t], HList) and st.heap[v.t].items is not None:
        items = st.heap[v.t].items
        if all(e.k == "pnode" for e in items):
            us = [e.t[0] for e in items]
            st.ghost[field] = V("kstr", z3.StringVal("") if not us else (us[0] if len(us) == 1 else z3.Concat(*us)))
            return True
    raise OutOfReach(f"unmodelled assignment to {field}")


def element(x, st, field):
    """an arbitrary node on the stack"""
    s = st.ghost[field].t
    k = fresh_kind(st, "k_it")
    st.pc.append(z3.Contains(s, k))
    return V("pnode", (k, None, s.get_id()))


def construct(x, st, cname, pos, kw, node):
    """WikiNode(kind, loc) / LevelNode(kind, loc) / TemplateNode(...) / HTMLNode(...)"""
    fixed = NODE_CLASSES[cname]
    if fixed is not None:
        return [(st, V("pnode", (z3.StringVal(code(fixed)), None, 0)))]
    k = pos[0] if pos else kw.get("kind")
    if k is None or k.k != "kind":
        kt = fresh_kind(st, "k_new")
    else:
        kt = k.t
    return [(st, V("pnode", (kt, None, 0)))]


# ------------------------------------------------------------------ operators

def equal(a: V, b: V):
    if a.k == "kind" and b.k == "kind":
        return a.t == b.t
    if a.k == "pnode" and b.k == "pnode":
        return None
    return False       # not ours


def contains(x, st, cont: V, item: V):
    """item in cont for kinds; None when not ours"""
    if item.k != "kind":
        return None
    if cont.k == "kindset_s":
        return z3.Contains(cont.t, item.t)
    names = kind_names(cont)
    if names is not None:
        return member_of(item.t, names)
    return None


def binop(x, st, opn, a: V, b: V):
    if opn in ("BitOr", "BitAnd"):
        na, nb = kind_names(a), kind_names(b)
        if na is not None and nb is not None:
            return V("kindset", (na | nb) if opn == "BitOr" else (na & nb))
    return None


def invert(v: V):
    n = kind_names(v)
    if n is None:
        return None
    return V("kindset", frozenset(universe()) - n)


# ------------------------------------------------------------------ any(... for x in ctx.parser_stack)

def try_any(x, e: ast.Call, st, chain):
    """any(<elt> for n in ctx.<stack>) where <elt> is `n.kind in KS` / `n.kind == K`: exact; otherwise None"""
    field = enabled(x)
    if not field or not (isinstance(e.func, ast.Name) and e.func.id in ("any",) and len(e.args) == 1
                         and isinstance(e.args[0], ast.GeneratorExp)):
        return None
    g = e.args[0]
    if len(g.generators) != 1 or g.generators[0].ifs:
        return None
    gen = g.generators[0]
    it = gen.iter
    if not (isinstance(it, ast.Attribute) and it.attr == field and isinstance(it.value, ast.Name)
            and it.value.id in ("ctx", "self", "wtp")):
        return None
    if not isinstance(gen.target, ast.Name):
        return None
    var = gen.target.id
    elt = g.elt
    if isinstance(elt, ast.Compare) and len(elt.ops) == 1 and isinstance(elt.left, ast.Attribute) \
            and elt.left.attr == "kind" and isinstance(elt.left.value, ast.Name) and elt.left.value.id == var \
            and isinstance(elt.ops[0], (ast.In, ast.Eq)):
        rs = x.ev(elt.comparators[0], st, chain)
        if len(rs) != 1:
            return None
        s2, kv = rs[0]
        names = kind_names(kv)
        seq = s2.ghost[field].t
        if names is not None:
            return [(s2, vbool(z3.Or(*[z3.Contains(seq, z3.StringVal(code(n))) for n in sorted(names)])
                              if names else z3.BoolVal(False)))]
        if kv.k == "kind":
            return [(s2, vbool(z3.Contains(seq, kv.t)))]
    return None


# ------------------------------------------------------------------ clause builtins

CLAUSE_BUILTINS = {"has_kind", "stack_ok", "top_kind", "kinds_below_top_unchanged"}


def clause_builtin(x, st, name, pos, kw, node):
    field = enabled(x)

    def seq_of(v):
        if v.k == "gref":
            v = st.ghost[v.t]
        if v.k != "kstr":
            raise OutOfReach(f"{name}: expected the node stack, got {v.k}")
        return v.t
    if name == "has_kind":
        s = seq_of(pos[0])
        if pos[1].k == "kindset_s":
            fl = pos[1].t
            return [(st, vbool(z3.Or(*[z3.And(z3.Contains(fl, z3.StringVal(code(n))), z3.Contains(s, z3.StringVal(code(n))))
                                       for n in universe()])))]
        names = kind_names(pos[1])
        if names is not None:
            return [(st, vbool(z3.Or(*[z3.Contains(s, z3.StringVal(code(n))) for n in sorted(names)])
                              if names else z3.BoolVal(False)))]
        if pos[1].k == "kind":
            return [(st, vbool(z3.Contains(s, pos[1].t)))]
        raise OutOfReach("has_kind: second argument is not a kind")
    if name == "stack_ok":
        # the root node, and only it, has kind ROOT; it is never popped
        s = seq_of(pos[0]) if pos else st.ghost[field].t
        L = z3.Length(s)
        root = z3.StringVal(code("ROOT"))
        return [(st, vbool(z3.And(L >= 1, z3.SubString(s, 0, 1) == root,
                                  z3.Not(z3.Contains(z3.SubString(s, 1, L - 1), root)))))]
    if name == "top_kind":
        s = seq_of(pos[0]) if pos else st.ghost[field].t
        return [(st, V("kind", z3.SubString(s, z3.Length(s) - 1, 1)))]
    raise OutOfReach("clause builtin " + name)


# ------------------------------------------------------------------ the ghost value (kstr) in generic operations

def kstr_of(x, st, v: V):
    """a stack value / list of nodes or kinds as a kstr term, else None"""
    from .vx import HList
    if v.k == "gref":
        v = st.ghost.get(v.t, v)
    if v.k == "kstr":
        return v.t
    if v.k == "ref" and isinstance(st.heap[v.t], HList) and st.heap[v.t].items is not None:
        ts = []
        for e in st.heap[v.t].items:
            if e.k == "kind":
                ts.append(e.t)
            elif e.k == "pnode":
                ts.append(e.t[0])
            else:
                return None
        return z3.StringVal("") if not ts else (ts[0] if len(ts) == 1 else z3.Concat(*ts))
    return None


def table_index(x, st, tab: V, key: V, node, default: V | None = None):
    """SUBTITLE_TO_KIND[token] / KIND_TO_LEVEL[kind] / KIND_TO_LEVEL.get(kind, d)"""
    if tab.k == "kinddict":
        k = fresh_kind(st, "k_tab")
        st.pc.append(member_of(k, {n for _, n in tab.t}))
        if key.k == "str":
            for ks, n in tab.t:
                st.pc.append(z3.Implies(key.t == z3.StringVal(ks), k == z3.StringVal(code(n))))
        return [(st, V("kind", k))]
    if tab.k == "leveltab" and key.k == "kind":
        lv = z3.Int(fresh_name("level"))
        inside = member_of(key.t, {n for n, _ in tab.t})
        for n, i in tab.t:
            st.pc.append(z3.Implies(key.t == z3.StringVal(code(n)), lv == i))
        if default is not None:
            if default.k not in ("int", "bool"):
                return [(st, vopq("level"))]
            st.pc.append(z3.Implies(z3.Not(inside), lv == x.as_int(default)))
        else:
            st.pc.append(inside)          # a missing key raises KeyError: that path is not followed here
        return [(st, vint(lv))]
    return [(st, vopq("tab"))]
