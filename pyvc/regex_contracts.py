"""Assumed contracts for individual regular expressions, keyed by the exact
pattern text.  Each is validated on every run against CPython's `re` by
exhaustive enumeration (bounded/regex_validate.py); they are assumptions, never
counted as proved.  A pattern without an entry gets only the structural facts
(group count, which groups always participate) from CPython's regex parser."""
from __future__ import annotations

import z3

# pattern -> function(x, st, kind, string_v, groups) adding facts to st.pc
CONTRACTS = {}


def contract(pattern):
    def deco(fn):
        CONTRACTS[pattern] = fn
        return fn
    return deco


def apply(x, st, pattern, kind, string_v, groups):
    fn = CONTRACTS.get(pattern)
    if fn is not None:
        x.assumptions.add(f"regex contract (assumed, validated by enumeration): {pattern!r}")
        fn(x, st, kind, string_v, groups)


def no_match_condition(x, pattern, kind, string_v):
    """z3 condition under which the pattern does NOT match, or None if unknown"""
    fn = NOMATCH.get((pattern, kind))
    if fn is None or string_v is None or string_v.k != "str":
        return None
    return fn(string_v.t)


NOMATCH = {}


@contract(r"(?s)^([^=<]*)=(.*)$")
def _switch_arg(x, st, kind, sv, groups):
    # matches iff an '=' exists with no '<' before the first '='; g1 = text
    # before the first '=', g2 = the rest
    if sv is None or sv.k != "str":
        return
    s = sv.t
    g1, g2 = groups[1].t, groups[2].t
    st.pc.append(s == z3.Concat(g1, z3.StringVal("="), g2))
    st.pc.append(z3.Not(z3.Contains(g1, z3.StringVal("="))))
    st.pc.append(z3.Not(z3.Contains(g1, z3.StringVal("<"))))
    st.pc.append(groups[0].t == s)


NOMATCH[(r"(?s)^([^=<]*)=(.*)$", "match")] = lambda s: z3.Or(
    z3.Not(z3.Contains(s, z3.StringVal("="))),
    z3.Contains(z3.SubString(s, 0, z3.IndexOf(s, z3.StringVal("="), 0)), z3.StringVal("<")))


SUBS = {}


def apply_sub(x, st, pattern, repl, src, result):
    fn = SUBS.get(pattern)
    if fn is not None:
        x.assumptions.add(f"re.sub contract (assumed, validated by enumeration): {pattern!r}")
        fn(x, st, repl, src, result)


@contract(r"\\$(\\d+)".replace("\\\\", "\\"))
def _dollar_digits(x, st, kind, sv, groups):
    # \d in a str pattern = Unicode decimal digits (Nd)
    from . import smt
    st.pc.append(z3.InRe(groups[1].t, z3.Plus(smt.RE("decimal"))))
    st.pc.append(groups[0].t == z3.Concat(z3.StringVal("$"), groups[1].t))


# ---- re.sub with a constant replacement (lua_loader's path cleaning); facts about the RESULT only

def _sub(pattern):
    def deco(fn):
        SUBS[pattern] = fn
        return fn
    return deco


def _const_repl(repl, text):
    return repl is not None and repl.k == "str" and z3.is_string_value(repl.t) and repl.t.as_string() == text


@_sub(r"[\0-\037]")
def _strip_controls(x, st, repl, src, result):
    if _const_repl(repl, ""):
        # nothing is added; an input without control characters is returned as it is
        st.pc.append(z3.Length(result.t) <= z3.Length(src.t))
        ctrl = z3.Range(chr(0), chr(0o37))
        st.pc.append(z3.Implies(z3.Not(z3.InRe(src.t, z3.Concat(z3.Star(z3.AllChar(z3.ReSort(z3.StringSort()))),
                                                        ctrl, z3.Star(z3.AllChar(z3.ReSort(z3.StringSort())))))),
                                result.t == src.t))


@_sub(r"//+")
def _collapse_slashes(x, st, repl, src, result):
    if _const_repl(repl, "/"):
        st.pc.append(z3.Not(z3.Contains(result.t, z3.StringVal("//"))))


@_sub(r"\.\.+")
def _collapse_dots(x, st, repl, src, result):
    if _const_repl(repl, "."):
        # every maximal run of two or more dots becomes one dot: no two adjacent dots remain
        st.pc.append(z3.Not(z3.Contains(result.t, z3.StringVal(".."))))


@_sub(r"^/+")
def _strip_leading_slashes(x, st, repl, src, result):
    if _const_repl(repl, ""):
        st.pc.append(z3.Not(z3.PrefixOf(z3.StringVal("/"), result.t)))
        st.pc.append(z3.SuffixOf(result.t, src.t))
