"""pyvc.smt -- sorts, Unicode class tables, builtin string models and the
discharge procedure (one fresh solver per obligation; cvc5 / z3-4.8 CLI for
unknowns; every sat model validated by evaluation)."""
from __future__ import annotations

import json
import os
import subprocess
import tempfile
import time
import unicodedata
from functools import lru_cache
from pathlib import Path

import z3

S = z3.StringSort()
I = z3.IntSort()
B = z3.BoolSort()
SeqS = z3.SeqSort(S)

TABLE_CACHE = Path(__file__).resolve().parent.parent / ".scratch" / "unitables.json"
MAXCP = 0x2FFFF  # z3's character alphabet


def _ranges(pred) -> list[tuple[int, int]]:
    out = []
    st = None
    for c in range(MAXCP + 1):
        if pred(chr(c)):
            if st is None:
                st = c
        elif st is not None:
            out.append((st, c - 1))
            st = None
    if st is not None:
        out.append((st, MAXCP))
    return out


_TABLES: dict[str, list] | None = None


def unicode_tables() -> dict[str, list]:
    """Exact class tables.  Computed from the interpreter that *runs* the repo
    (/venv/bin/python) so that isdigit()/isspace() mean what they mean there;
    cached under .scratch keyed by that interpreter's unicodedata version."""
    global _TABLES
    if _TABLES is not None:
        return _TABLES
    code = (
        "import json,unicodedata,sys\n"
        "def R(p):\n"
        " out=[];st=None\n"
        " for c in range(0x30000):\n"
        "  if p(chr(c)):\n"
        "   if st is None: st=c\n"
        "  elif st is not None: out.append((st,c-1)); st=None\n"
        " if st is not None: out.append((st,0x2FFFF))\n"
        " return out\n"
        "print(json.dumps({'ver':unicodedata.unidata_version,'digit':R(str.isdigit),"
        "'decimal':R(str.isdecimal),'space':R(str.isspace),"
        "'alnum':R(str.isalnum),'word':R(lambda c: c.isalnum() or c=='_')}))\n"
    )
    py = os.environ.get("VERIF_REPO_PY", "/venv/bin/python")
    try:
        if TABLE_CACHE.exists():
            _TABLES = json.loads(TABLE_CACHE.read_text())
            return _TABLES
    except Exception:
        pass
    try:
        out = subprocess.run([py, "-c", code], capture_output=True, text=True,
                             timeout=120, check=True).stdout
        _TABLES = json.loads(out)
    except Exception:
        _TABLES = {"ver": unicodedata.unidata_version + "(tooling interpreter)",
                   "digit": _ranges(str.isdigit), "decimal": _ranges(str.isdecimal),
                   "space": _ranges(str.isspace), "alnum": _ranges(str.isalnum),
                   "word": _ranges(lambda c: c.isalnum() or c == "_")}
    try:
        TABLE_CACHE.parent.mkdir(parents=True, exist_ok=True)
        TABLE_CACHE.write_text(json.dumps(_TABLES))
    except Exception:
        pass
    return _TABLES


def _re_of(rs):
    rr = [z3.Range(z3.StringVal(chr(a)), z3.StringVal(chr(b))) for a, b in rs]
    return z3.Union(*rr) if len(rr) > 1 else rr[0]


@lru_cache(maxsize=None)
def RE(cls: str):
    return _re_of([tuple(x) for x in unicode_tables()[cls]])


@lru_cache(maxsize=None)
def RE_INT_OK():
    """Python's int(str) grammar (base 10): optional blanks, sign, decimal
    digits (Nd) with single underscores between digits, optional blanks."""
    dec = RE("decimal")
    ws = RE("space")
    return z3.Concat(
        z3.Star(ws), z3.Option(z3.Union(z3.Re("+"), z3.Re("-"))), dec,
        z3.Star(z3.Concat(z3.Option(z3.Re("_")), dec)), z3.Star(ws))


# uninterpreted string functions (axioms are added per use in vx)
f_strip = z3.Function("py_strip", S, S)
f_lstrip = z3.Function("py_lstrip", S, S)
f_rstrip = z3.Function("py_rstrip", S, S)
f_lower = z3.Function("py_lower", S, S)
f_upper = z3.Function("py_upper", S, S)
f_int = z3.Function("py_int", S, I)          # value of int(s) when parsable
f_str_of_int = z3.Function("py_str_int", I, S)
f_E = z3.Function("E", S, S)                  # the total expander callback


def strip_axioms(s):
    r = f_strip(s)
    return [z3.Length(r) <= z3.Length(s), z3.Contains(s, r)]


def _arith_only(c) -> bool:
    """True if the only sequence operation in c is str.len (treated as an
    opaque integer term)"""
    todo = [c]
    seen = set()
    while todo:
        t = todo.pop()
        if t.get_id() in seen:
            continue
        seen.add(t.get_id())
        if z3.is_quantifier(t):
            return False
        if z3.is_app(t):
            k = t.decl().kind()
            if k == z3.Z3_OP_SEQ_LENGTH:
                continue
            srt = t.sort()
            if srt.kind() in (z3.Z3_SEQ_SORT, z3.Z3_RE_SORT, z3.Z3_ARRAY_SORT):
                return False
            if k in (z3.Z3_OP_SEQ_IN_RE, z3.Z3_OP_SEQ_CONTAINS, z3.Z3_OP_SEQ_PREFIX, z3.Z3_OP_SEQ_SUFFIX):
                return False
            todo.extend(t.children())
    return True


# ---------------------------------------------------------------- discharge

_VALID_CACHE: set = set()


class Verdict:
    def __init__(self, status, backend, secs, model=None, note=""):
        self.status = status      # proved | refuted | unknown
        self.backend = backend
        self.secs = secs
        self.model = model or {}
        self.note = note

    def to_json(self):
        return {"status": self.status, "backend": self.backend,
                "secs": round(self.secs, 4), "model": self.model, "note": self.note}


def _model_dict(m: z3.ModelRef) -> dict:
    out = {}
    for d in m.decls():
        if d.arity() == 0:
            try:
                v = m[d]
                if z3.is_string_value(v):
                    out[d.name()] = {"str": v.as_string(), "py": _z3str_to_py(v)}
                elif z3.is_int_value(v):
                    out[d.name()] = {"int": v.as_long()}
                elif z3.is_true(v) or z3.is_false(v):
                    out[d.name()] = {"bool": z3.is_true(v)}
                else:
                    out[d.name()] = {"term": str(v)[:200]}
            except Exception:
                pass
    return out


def _z3str_to_py(v) -> str:
    s = v.as_string()
    # z3 escapes non-printables as \u{XXXX}
    import re as _re
    return _re.sub(r"\\u\{([0-9a-fA-F]+)\}", lambda m: chr(int(m.group(1), 16)), s)


def discharge(pc: list, goal, timeout_ms: int = 20000, want_model=True, watch=None, hints=None) -> Verdict:
    """prove  (and pc) => goal.  Fresh solver; sat models are validated."""
    t0 = time.time()
    g1 = z3.simplify(goal)
    if z3.is_true(g1):
        return Verdict("proved", "z3-simplify", time.time() - t0)
    key = g1.sexpr() if len(pc) < 400 else None
    if key is not None and key in _VALID_CACHE:
        return Verdict("proved", "z3-5.1", time.time() - t0, note="goal valid without path condition (cached)")
    if not z3.is_false(g1):
        s0 = z3.Solver()
        s0.set("timeout", min(2000, timeout_ms))
        s0.add(z3.Not(g1))
        if s0.check() == z3.unsat:
            if key is not None:
                _VALID_CACHE.add(key)
            return Verdict("proved", "z3-5.1", time.time() - t0, note="goal valid without path condition")
    if hints and hints[0] == "length-abstraction":
        # obligations of the form  len(s) <= N : decided on the arithmetic
        # skeleton of the path condition (string/regex conjuncts dropped, which
        # only weakens the hypothesis: a proof is still a proof; a model is a
        # candidate that the replay has to confirm)
        sa = z3.Solver()
        sa.set("timeout", min(10000, timeout_ms))
        kept = [c for c in pc if _arith_only(c)] + [z3.Not(goal)]
        # str.len(t) -> fresh non-negative integer per distinct t
        subst = {}
        for c in kept:
            todo = [c]
            while todo:
                t = todo.pop()
                if z3.is_app(t):
                    if t.decl().kind() == z3.Z3_OP_SEQ_LENGTH:
                        if t.get_id() not in subst:
                            subst[t.get_id()] = (t, z3.Int(f"len_abs!{len(subst)}"))
                    else:
                        todo.extend(t.children())
        pairs = list(subst.values())
        for c in kept:
            sa.add(z3.substitute(c, *pairs) if pairs else c)
        for _, v in pairs:
            sa.add(v >= 0)
        r = sa.check()
        if r == z3.unsat:
            return Verdict("proved", "z3-5.1", time.time() - t0, note="on the arithmetic skeleton of the path condition")
        if r == z3.sat:
            m = sa.model()
            md = {}
            for wn, wt in (watch or {}).items():
                try:
                    wv = m.eval(wt, model_completion=True)
                    md["@" + wn] = {"py": _z3str_to_py(wv)[:80]} if z3.is_string_value(wv) else {"term": str(wv)[:200]}
                except Exception:
                    pass
            return Verdict("refuted", "z3-5.1", time.time() - t0, md,
                           note="no length bound on the operand in the path condition (length abstraction; replay decides)")
        return Verdict("unknown", "z3-5.1", time.time() - t0, note="length abstraction undecided")
    s = z3.Solver()
    s.set("timeout", timeout_ms)
    for c in pc:
        s.add(c)
    s.add(z3.Not(goal))
    if hints and "cvc5-first" in hints:
        # string-containment obligations (node stack as a string): z3 gets one second, then cvc5, which decides
        # these in milliseconds, before z3 is given the full budget
        s.set("timeout", 1000)
        try:
            r0 = s.check()
        except z3.Z3Exception:
            r0 = z3.unknown
        if r0 == z3.unsat:
            return Verdict("proved", "z3-5.1", time.time() - t0)
        if r0 == z3.unknown:
            v2 = _cli_fallback(s, min(timeout_ms, 10000), only="cvc5")
            if v2 is not None:
                v2.secs = time.time() - t0
                return v2
        s.set("timeout", timeout_ms)
    try:
        r = s.check()
    except z3.Z3Exception as ex:  # pragma: no cover
        return Verdict("unknown", "z3-5.1", time.time() - t0, note=f"z3 exception {ex}")
    if r == z3.unsat:
        return Verdict("proved", "z3-5.1", time.time() - t0)
    if r == z3.sat:
        m = s.model()
        ok = True
        try:
            for c in pc:
                if not z3.is_true(m.eval(c, model_completion=True)):
                    ok = False
                    break
            if ok and not z3.is_false(m.eval(goal, model_completion=True)):
                ok = False
        except z3.Z3Exception:
            ok = False
        if ok:
            md = _model_dict(m)
            for wn, wt in (watch or {}).items():
                try:
                    wv = m.eval(wt, model_completion=True)
                    md["@" + wn] = {"py": _z3str_to_py(wv)} if z3.is_string_value(wv) else {"term": str(wv)[:200]}
                except Exception:
                    pass
            return Verdict("refuted", "z3-5.1", time.time() - t0, md)
        # unvalidated model: try the other back ends before giving up
        v2 = _cli_fallback(s, timeout_ms)
        if v2 is not None and v2.status == "proved":
            v2.secs = time.time() - t0
            return v2
        return Verdict("unknown", "z3-5.1", time.time() - t0, _model_dict(m),
                       note="sat but model did not validate by evaluation")
    v2 = _cli_fallback(s, timeout_ms)
    if v2 is not None:
        v2.secs = time.time() - t0
        return v2
    # sequence (dis)equalities: z3's seq solver often cannot build a model for
    # "these two sequences differ"; strengthen the negated goal to "their
    # lengths differ" (any model of that is a model of the original query)
    if z3.is_eq(goal) and goal.arg(0).sort().kind() == z3.Z3_SEQ_SORT:
        s2 = z3.Solver()
        s2.set("timeout", min(10000, timeout_ms))
        for c in pc:
            s2.add(c)
        s2.add(z3.Length(goal.arg(0)) != z3.Length(goal.arg(1)))
        try:
            if s2.check() == z3.sat:
                m = s2.model()
                if all(z3.is_true(m.eval(c, model_completion=True)) for c in pc) and \
                        z3.is_false(m.eval(goal, model_completion=True)):
                    return Verdict("refuted", "z3-5.1", time.time() - t0, _model_dict(m),
                                   note="model found for the strengthened query len(lhs) != len(rhs)")
        except z3.Z3Exception:
            pass
    vf = _finite_domain_refute(pc, goal, min(15000, timeout_ms))
    if vf is not None:
        vf.secs = time.time() - t0
        return vf
    va = _ackermann_refute(pc, goal, min(10000, timeout_ms))
    if va is not None:
        va.secs = time.time() - t0
        return va
    return Verdict("unknown", "z3-5.1", time.time() - t0, note=str(s.reason_unknown()))


def _finite_domain_refute(pc, goal, timeout_ms):
    """queries over uninterpreted sorts with quantifiers (set/relation invariants):
    look for a counter-model whose uninterpreted sorts have at most k elements.
    The answer is a *candidate* (not validated by evaluation): the caller reports
    it as a violation only when the replay reproduces a failure."""
    sorts = {}
    todo = list(pc) + [goal]
    seen = set()
    while todo:
        t = todo.pop()
        if t.get_id() in seen:
            continue
        seen.add(t.get_id())
        if z3.is_quantifier(t):
            for i in range(t.num_vars()):
                so = t.var_sort(i)
                if so.kind() == z3.Z3_UNINTERPRETED_SORT:
                    sorts[so.name()] = so
            todo.append(t.body())
            continue
        if z3.is_app(t):
            if t.sort().kind() == z3.Z3_UNINTERPRETED_SORT:
                sorts[t.sort().name()] = t.sort()
            todo.extend(t.children())
    if not sorts:
        return None
    for k in (2, 3):
        s = z3.Solver()
        s.set("timeout", timeout_ms // 2)
        for c in pc:
            s.add(c)
        s.add(z3.Not(goal))
        for name, so in sorts.items():
            elems = [z3.Const(f"fd!{name}!{i}", so) for i in range(k)]
            q = z3.Const(f"fdq!{name}", so)
            s.add(z3.ForAll([q], z3.Or(*[q == e for e in elems])))
        try:
            if s.check() == z3.sat:
                m = s.model()
                md = {d.name(): {"term": str(m[d])[:160]} for d in m.decls()
                      if d.arity() == 0 and not d.name().startswith(("fd!", "fdq!"))}
                md = dict(list(md.items())[:25])
                return Verdict("candidate", "z3-5.1", 0.0, md,
                               note=f"counter-model with <= {k} elements per uninterpreted sort (not validated by "
                                    "evaluation; reported as a violation only if the replay reproduces it)")
        except z3.Z3Exception:
            pass
    return None


def _ackermann_refute(pc, goal, timeout_ms):
    """replace applications of uninterpreted functions by fresh constants, solve,
    and accept the model only if it is functionally consistent (equal argument
    values => equal results), i.e. extends to a model of the original query"""
    forms = list(pc) + [z3.Not(goal)]
    apps = {}
    todo = list(forms)
    seen = set()
    while todo:
        t = todo.pop()
        if t.get_id() in seen or not z3.is_app(t):
            continue
        seen.add(t.get_id())
        d = t.decl()
        if d.kind() == z3.Z3_OP_UNINTERPRETED and d.arity() > 0:
            apps[t.get_id()] = t
        todo.extend(t.children())
    if not apps:
        return None
    # innermost first so nested applications are replaced consistently
    order = sorted(apps.values(), key=lambda t: len(t.sexpr()))
    pairs = []
    cur = forms
    consts = []
    for i, a in enumerate(order):
        a2 = z3.substitute(a, *pairs) if pairs else a
        k = z3.Const(f"ack!{i}", a.sort())
        consts.append((a, k))
        pairs.append((a2, k))
        cur = [z3.substitute(f, (a2, k)) for f in cur]
    sa = z3.Solver()
    sa.set("timeout", timeout_ms)
    for f in cur:
        sa.add(f)
    try:
        if sa.check() != z3.sat:
            return None
        m = sa.model()
        table = {}
        for a, k in consts:
            args = []
            for ch in a.children():
                # evaluate the argument with inner applications replaced
                ch_abs = ch
                for (a2, kk) in pairs:
                    ch_abs = z3.substitute(ch_abs, (a2, kk))
                args.append(str(m.eval(ch_abs, model_completion=True)))
            key = (a.decl().name(), tuple(args))
            val = str(m.eval(k, model_completion=True))
            if table.setdefault(key, val) != val:
                return None          # not functionally consistent
        md = _model_dict(m)
        md = {kk: v for kk, v in md.items() if not kk.startswith("ack!")}
        return Verdict("refuted", "z3-5.1", 0.0, md,
                       note="model via Ackermann expansion of uninterpreted functions (functionally consistent)")
    except z3.Z3Exception:
        return None


def _cli_fallback(s: z3.Solver, timeout_ms: int, only: str = ""):
    """re-issue as SMT-LIB to cvc5 --strings-exp and /usr/bin/z3 4.8.12; only a
    decisive 'unsat' is taken from them (their models are not validated here)."""
    try:
        text = s.to_smt2()
    except Exception:
        return None
    secs = max(2, timeout_ms // 1000)
    with tempfile.NamedTemporaryFile("w", suffix=".smt2", delete=False) as f:
        f.write("(set-logic ALL)\n" + text)
        path = f.name
    try:
        for name, cmd in (("cvc5-1.0.3", ["/usr/bin/cvc5", "--strings-exp", f"--tlimit={secs*1000}", path]),
                          ("z3-4.8.12", ["/usr/bin/z3", f"-T:{secs}", path])):
            if only and not name.startswith(only):
                continue
            try:
                out = subprocess.run(cmd, capture_output=True, text=True, timeout=secs + 5).stdout
            except Exception:
                continue
            first = out.strip().splitlines()[0] if out.strip() else ""
            if first == "unsat":
                return Verdict("proved", name, 0.0)
        return None
    finally:
        try:
            os.unlink(path)
        except OSError:
            pass
