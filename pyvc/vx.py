"""pyvc.vx -- symbolic executor over the real FunctionDef nodes of /repo.

One executor, two precision modes (DESIGN 2.4):
  value : every operation must have a model; raising operations produce
          `safety` obligations; unknown constructs make the function
          *out of reach* (reported, never skipped silently)
  frame : only ghost fields and what flows from them is precise; unknown
          operations yield opaque values, opaque conditions fork both ways

Paths are forked (no ite merging); obligations are keyed by site.
"""
from __future__ import annotations

import ast
import itertools
from dataclasses import dataclass, field

import z3

from . import loader, smt
from .smt import S, I, SeqS

# ------------------------------------------------------------------ values


class V:
    __slots__ = ("k", "t", "tags")

    def __init__(self, k, t=None, tags=frozenset()):
        self.k = k
        self.t = t
        self.tags = tags

    def __repr__(self):
        return f"V({self.k},{str(self.t)[:60]})"


NONE = V("none")
import os as _os
TRACE = bool(_os.environ.get("VERIF_TRACE"))
_cnt = itertools.count()


def fresh_name(p="v"):
    return f"{p}!{next(_cnt)}"


def vint(t):
    return V("int", z3.IntVal(t) if isinstance(t, int) else t)


def vbool(t):
    return V("bool", z3.BoolVal(t) if isinstance(t, bool) else t)


def vstr(t):
    return V("str", z3.StringVal(t) if isinstance(t, str) else t)


def vopq(p="opq", tags=frozenset()):
    return V("opq", fresh_name(p), tags)


def fresh(kind, p="v"):
    n = fresh_name(p)
    if kind == "int":
        return V("int", z3.Int(n))
    if kind == "bool":
        return V("bool", z3.Bool(n))
    if kind == "str":
        return V("str", z3.String(n))
    if kind == "none":
        return NONE
    if kind == "float":
        return V("float", n)
    return V("opq", n)


def RAISE(exc, info=""):
    return V("raise", (exc, info))


EXC_PARENTS = {
    "IndexError": "LookupError", "KeyError": "LookupError", "LookupError": "Exception",
    "ValueError": "Exception", "UnicodeDecodeError": "ValueError",
    "UnicodeEncodeError": "ValueError", "TypeError": "Exception",
    "ZeroDivisionError": "ArithmeticError", "OverflowError": "ArithmeticError",
    "ArithmeticError": "Exception", "AttributeError": "Exception",
    "AssertionError": "Exception", "RuntimeError": "Exception",
    "RecursionError": "RuntimeError", "StopIteration": "Exception",
    "OSError": "Exception", "FileNotFoundError": "OSError", "LuaError": "Exception",
    "lupa.LuaError": "Exception", "Exception": "BaseException", "AnyException": "Exception",
    "sqlite3.Error": "Exception", "json.JSONDecodeError": "ValueError",
}


def exc_matches(exc: str, handler: str) -> bool:
    e = exc
    while e is not None:
        if e == handler or e.split(".")[-1] == handler.split(".")[-1]:
            return True
        e = EXC_PARENTS.get(e)
    # an unknown exception class may be caught by Exception/BaseException
    return handler in ("Exception", "BaseException")


class HList:
    """heap list; items None = unknown contents (then `length` is a stable
    symbolic Int and `arr` a symbolic Int->String array when elem == 'str')"""
    def __init__(self, items=None, elem="opq", minlen=0):
        self.items = items
        self.elem = elem      # kind of unknown elements
        self.minlen = minlen
        self.length = None
        self.arr = None

    def copy(self):
        n = HList(None if self.items is None else list(self.items), self.elem, self.minlen)
        n.length, n.arr = self.length, self.arr
        return n

    def sym_len(self):
        if self.length is None:
            self.length = z3.Int(fresh_name("len"))
        return self.length

    def sym_arr(self):
        if self.arr is None:
            self.arr = z3.Array(fresh_name("arr"), I, S)
        return self.arr

    def forget(self):
        """contents become unknown (after an unmodelled mutation)"""
        self.items = None
        self.length = None
        self.arr = None


class HDict:
    def __init__(self, items=None):
        self.items = items    # list of (keyV, valV) with concrete-constant keys, or None

    def copy(self):
        return HDict(None if self.items is None else list(self.items))


class St:
    __slots__ = ("scopes", "heap", "pc", "ghost", "log", "entry", "handlers", "notes")

    def __init__(self):
        self.scopes: dict[int, dict] = {}
        self.heap: dict[int, object] = {}
        self.pc: list = []
        self.ghost: dict[str, V] = {}
        self.log: tuple = ()
        self.entry = None
        self.handlers: tuple = ()
        self.notes: tuple = ()

    def fork(self, cond=None):
        s = St()
        s.scopes = {k: dict(v) for k, v in self.scopes.items()}
        s.heap = {k: v.copy() for k, v in self.heap.items()}
        s.pc = list(self.pc)
        if cond is not None:
            s.pc.append(cond)
        s.ghost = dict(self.ghost)
        s.log = self.log
        s.entry = self.entry
        s.handlers = self.handlers
        s.notes = self.notes
        return s

    def assume(self, cond):
        self.pc.append(cond)
        return self


class OutOfReach(Exception):
    pass


@dataclass
class Obligation:
    kind: str            # safety | post@return | post@raise | inv-keep | inv-init | pre@call | frame | lemma | cover
    fn: str              # module:qualname
    site: str            # normalised source of the operation / clause
    ordinal: int
    pc: list
    goal: object
    exc: str = ""
    prop: str = ""
    line: int = 0
    verdict: object = None
    detail: str = ""
    watch: dict = field(default_factory=dict)
    hints: list = field(default_factory=list)

    @property
    def ident(self):
        return f"{self.fn}#{self.kind}#{self.site}#{self.ordinal}"


@dataclass
class Contract:
    target: str
    prop: str = ""
    mode: str = "value"
    params: dict = field(default_factory=dict)       # name -> kind spec
    free: dict = field(default_factory=dict)         # free variables (closures) -> kind spec
    requires: list = field(default_factory=list)     # python expr strings
    ensures: list = field(default_factory=list)
    raises: list = field(default_factory=list)       # exception names allowed to escape
    raises_ensures: list = field(default_factory=list)
    lets: dict = field(default_factory=dict)
    loops: dict = field(default_factory=dict)        # fingerprint -> {"invariant":[...], "havoc_ghost":[...]}
    callbacks: dict = field(default_factory=dict)    # name -> callback contract name
    assumed: list = field(default_factory=list)      # free-text assumptions (listed in evidence)
    result: str = ""                                  # kind of result when used as callee
    modifies: list = field(default_factory=list)     # ghost fields this function may change
    may_raise: bool = True
    inline: bool = False
    pure: bool = False
    callee_ensures: list = field(default_factory=list)  # facts about result usable by callers
    driver: str = ""
    effects: list = field(default_factory=list)      # caller-side ghost effects ("append:errors", ...)
    variant: str = ""
    track_log: bool = False
    log_names: list = field(default_factory=list)    # restrict the ghost call log to these callee names
    drift: list = field(default_factory=list)        # assumed-contract keys (SQL text ...): failing => undecided
    abstract_locals: dict = field(default_factory=dict)   # local name -> "pageset" | "namerel" (ghost view of a container)
    abstract_calls: dict = field(default_factory=dict)    # simple callee name -> abstract handler (assumed contract)
    asserts: dict = field(default_factory=dict)           # statement fingerprint -> clauses checked before it runs
    taint: dict = field(default_factory=dict)             # local name -> tag put on opaque values assigned to it
    inline_targets: list = field(default_factory=list)    # callees executed from their real bodies even if a contract exists
    inline_depth: int = 0                                 # value mode: allow deeper inlining (lemma drivers)
    merge_threshold: int = 0                              # frame mode: join states only above this many (0 = default)
    pop_guard: bool = False
    ctx_facts: list = field(default_factory=list)
    node_stack: str = ""             # frame mode: this ctx field is the parser's node stack (ghost sequence of kind names, pyvc/pnodes.py)
    assume_ensures: bool = False     # as a callee: havoc `modifies`, then assume `ensures` (old() = the state before the call)
    default_loop: dict = field(default_factory=dict)   # loop spec for loops without a sidecar entry
    candidate_refutations: bool = False   # counter-models are candidates (over-approximated library results): replay decides
    cvc5_first: bool = False         # string-containment obligations: give z3 one second, then cvc5
    seq_split: bool = False          # value mode: s.split(d) is the immutable sequence py_split(s, d) (shared with the spec)


GHOST_SEQ_FIELDS = {"expand_stack"}
GHOST_LIST_FIELDS = {"errors", "warnings", "debugs", "notes", "wiki_notices"}
CTX_NAMES = {"self", "ctx", "wtp", "wxr"}


class Registry:
    """contracts by target, plus lookup by simple name"""
    def __init__(self):
        self.by_target: dict[str, Contract] = {}
        self.by_node: dict[int, Contract] = {}
        self.by_simple: dict[str, list[Contract]] = {}
        self.neutral: set[str] = set()      # simple names of package functions proven neutral
        self.effectful: set[str] = set()    # simple names of package functions that may reach writers
        self.callback_contracts: dict[str, dict] = {}
        self.may_log_names: set | None = None   # simple names that may reach a message recorder
        self.db_names: set | None = None        # simple names that may reach the database / memo

    def add(self, c: Contract):
        self.by_target[c.target + ("#" + c.variant if c.variant else "")] = c
        self.by_simple.setdefault(c.target.rsplit(".", 1)[-1].split(":")[-1], []).append(c)

    def bind(self):
        for c in self.by_target.values():
            mod, node = loader.find(c.target)
            cur = self.by_node.get(id(node))
            if c.variant == "callee" or cur is None or (cur.variant and cur.variant != "callee" and not c.variant):
                self.by_node[id(node)] = c
            c._mod, c._node = mod, node     # type: ignore[attr-defined]


MUTATING_METHODS = {"append", "pop", "extend", "insert", "remove", "clear", "sort",
                    "reverse", "update", "setdefault", "add", "discard", "popleft",
                    "appendleft", "popitem"}


_CONSTS_CACHE: dict = {}


def _consts_of(e) -> frozenset:
    """names of the uninterpreted constants (arity 0) occurring in a term; cached by term id"""
    i = e.get_id()
    r = _CONSTS_CACHE.get(i)
    if r is not None:
        return r[1]
    out = set()
    seen = set()
    todo = [e]
    while todo:
        t = todo.pop()
        ti = t.get_id()
        if ti in seen:
            continue
        seen.add(ti)
        if z3.is_quantifier(t):
            todo.append(t.body())
            continue
        if z3.is_app(t):
            if t.num_args() == 0:
                if t.decl().kind() == z3.Z3_OP_UNINTERPRETED:
                    out.add(t.decl().name())
            else:
                todo.extend(t.children())
    r = frozenset(out)
    if len(_CONSTS_CACHE) > 200000:
        _CONSTS_CACHE.clear()
    _CONSTS_CACHE[i] = (e, r)      # keep the term alive so that the id is not reused
    return r


_SK_CACHE: dict = {}
_BOOL_OPS = None
_INT_OPS = None


def _skeleton(e):
    """over-approximation of a formula in linear integer arithmetic + propositional logic"""
    global _BOOL_OPS, _INT_OPS
    if _BOOL_OPS is None:
        _BOOL_OPS = {z3.Z3_OP_AND, z3.Z3_OP_OR, z3.Z3_OP_NOT, z3.Z3_OP_IMPLIES, z3.Z3_OP_ITE, z3.Z3_OP_TRUE,
                     z3.Z3_OP_FALSE, z3.Z3_OP_XOR, z3.Z3_OP_IFF}
        _INT_OPS = {z3.Z3_OP_ADD, z3.Z3_OP_SUB, z3.Z3_OP_UMINUS, z3.Z3_OP_MUL, z3.Z3_OP_ITE, z3.Z3_OP_ANUM}
    i = e.get_id()
    hit = _SK_CACHE.get(i)
    if hit is not None:
        return hit[1]
    if len(_SK_CACHE) > 200000:
        _SK_CACHE.clear()

    def fin(r):
        _SK_CACHE[i] = (e, r)
        return r
    if z3.is_quantifier(e) or not z3.is_app(e):
        return fin(z3.Bool(f"skb!{i}") if z3.is_bool(e) else z3.Int(f"ski!{i}"))
    k = e.decl().kind()
    if z3.is_bool(e):
        if k in _BOOL_OPS:
            return fin(e.decl()(*[_skeleton(c) for c in e.children()]) if e.num_args() else e)
        if k in (z3.Z3_OP_LE, z3.Z3_OP_LT, z3.Z3_OP_GE, z3.Z3_OP_GT) and z3.is_int(e.arg(0)):
            return fin(e.decl()(_skeleton(e.arg(0)), _skeleton(e.arg(1))))
        if k in (z3.Z3_OP_EQ, z3.Z3_OP_DISTINCT) and e.num_args() == 2 and (z3.is_int(e.arg(0)) or z3.is_bool(e.arg(0))):
            a, b = _skeleton(e.arg(0)), _skeleton(e.arg(1))
            return fin(a == b if k == z3.Z3_OP_EQ else a != b)
        return fin(z3.Bool(f"skb!{i}"))
    if z3.is_int(e):
        if k in _INT_OPS:
            if k == z3.Z3_OP_MUL and sum(0 if z3.is_int_value(c) else 1 for c in e.children()) > 1:
                return fin(z3.Int(f"ski!{i}"))
            return fin(e.decl()(*[_skeleton(c) for c in e.children()]) if e.num_args() else e)
        return fin(z3.Int(f"ski!{i}"))
    return fin(e)


def _is_arith_only(e) -> bool:
    """the condition's own atoms are integer comparisons / propositional structure (its integer leaves may be
    arbitrary terms): the skeleton then loses nothing that the condition itself says"""
    todo = [e]
    while todo:
        t = todo.pop()
        if z3.is_quantifier(t) or not z3.is_app(t):
            return False
        k = t.decl().kind()
        if z3.is_bool(t):
            if k in _BOOL_OPS:
                todo.extend(t.children())
            elif k in (z3.Z3_OP_LE, z3.Z3_OP_LT, z3.Z3_OP_GE, z3.Z3_OP_GT, z3.Z3_OP_EQ, z3.Z3_OP_DISTINCT) \
                    and z3.is_int(t.arg(0)):
                continue
            else:
                return False
    return True


class X:
    """executor for one function under contract"""

    MAX_INLINE_DEPTH = 4
    MAX_PATHS = 20000

    def __init__(self, contract: Contract, reg: Registry):
        self.c = contract
        self.reg = reg
        self.mod, self.fn = contract._mod, contract._node  # type: ignore[attr-defined]
        self.mode = contract.mode
        self.obligs: list[Obligation] = []
        self.site_counts: dict[tuple, int] = {}
        self.assumptions: set[str] = set(contract.assumed)
        self.opaque_ops: dict[str, int] = {}
        self.exits = []          # (st, outcome) at function level
        self.covers = 0
        self.npaths = 0
        self.depth = 0
        self.cur_fn = contract.target + ("#" + contract.variant if contract.variant else "")
        self.scope_ids = itertools.count(1)
        self.heap_ids = itertools.count(1)
        self.global_scope: dict[str, V] = {}
        self.matched_loops: set = set()

    # ------------------------------------------------------------ utilities
    def note_opaque(self, what: str):
        self.opaque_ops[what] = self.opaque_ops.get(what, 0) + 1

    def unsupported(self, what: str, node=None):
        if self.mode == "frame":
            self.note_opaque(what)
            return vopq("unk")
        ln = getattr(node, "lineno", 0)
        raise OutOfReach(f"{what} (line {ln})")

    def oblige(self, kind, node_or_site, st, goal, exc="", detail="", watch=None, tag="", hints=None):
        site = node_or_site if isinstance(node_or_site, str) else loader.norm(node_or_site)
        site = site[:160]
        if tag:
            site = f"[{tag}] " + site
        key = (kind, site, exc)
        # all paths reaching one site share one ordinal: ordinal counts distinct
        # *sites* with the same text, identified by line
        ln = getattr(node_or_site, "lineno", 0) if not isinstance(node_or_site, str) else 0
        lines = self.site_counts.setdefault(key, {})
        if ln not in lines:
            lines[ln] = len(lines)
        if not hints and (getattr(self.c, "node_stack", "") or getattr(self.c, "cvc5_first", False)):
            hints = ["cvc5-first"]
        self.obligs.append(Obligation(kind, self.cur_fn, site, lines[ln], list(st.pc), goal,
                                      exc=exc, prop=self.c.prop, line=ln, detail=detail,
                                      watch=watch or {}, hints=hints or []))

    def alloc(self, st: St, obj) -> V:
        hid = next(self.heap_ids)
        st.heap[hid] = obj
        return V("ref", hid)

    def log_call(self, st, name, pos, result=None, kw=None):
        if getattr(self.c, "track_log", False):
            names = getattr(self.c, "log_names", None)
            if names and name not in names:
                return
            pos = list(pos)
            if pos and pos[0].k == "ctx":
                pos = pos[1:]          # method call on the context: log the caller-visible arguments
            st.log = st.log + (("call", name, tuple(pos), result, tuple(sorted((kw or {}).items(), key=lambda kv: kv[0]))),)

    def on_ghost_pop(self, st, field, before, after, node):
        """pop of a tracked sequence: never below the entry frame when the
        contract promises 'entry path is a prefix of the exit path on raise'"""
        if self.mode == "value":
            self.oblige("safety", node, st, z3.Length(before) > 0, exc="IndexError")
        if getattr(self.c, "pop_guard", False) and st.entry is not None:
            e = st.entry.ghost[field].t
            self.oblige("frame-pop", node, st, z3.PrefixOf(e, after),
                        detail="pop must not go below the entry path")

    def on_ghost_write(self, st, field, node):
        if field not in self.c.modifies and getattr(self.c, "pop_guard", False):
            self.oblige("frame", node, st, z3.BoolVal(False), detail=f"write to {field} not in modifies")

    # truthiness
    def truth(self, v: V):
        k = v.k
        if k == "bool":
            return v.t
        if k == "int":
            return v.t != 0
        if k == "str":
            return z3.Length(v.t) > 0
        if k == "none":
            return z3.BoolVal(False)
        if k == "tuple":
            return z3.BoolVal(len(v.t) > 0)
        if k == "strlist":
            return v.t["len"] > 0
        if k in ("sseq", "kstr"):
            return z3.Length(v.t) > 0
        if k in ("pnode", "kind"):
            return z3.BoolVal(True)
        if k == "kindset":
            return z3.BoolVal(len(v.t) > 0)
        if k in ("func", "ctx", "mod", "match", "type", "page"):
            return z3.BoolVal(True)
        if k == "opq":
            return z3.Bool("truth!" + v.t)
        if k == "float":
            return z3.Bool("truth!" + v.t)
        if k == "set":
            return z3.BoolVal(len(v.t) > 0)
        return None  # ref handled by caller

    def truth_st(self, v: V, st: St):
        if v.k == "ref":
            o = st.heap[v.t]
            if type(o).__name__ == "HSet":
                from . import absmodels
                return o.arr != absmodels.EMPTY
            if getattr(o, "items", None) is not None:
                return z3.BoolVal(len(o.items) > 0)
            return z3.Bool(fresh_name("truth"))
        if v.k == "gref":
            g = st.ghost[v.t]
            return self.truth_st(g, st)
        if v.k == "glist":
            base, app = v.t
            if app:
                return z3.BoolVal(True)
            if base is None:
                return z3.BoolVal(False)
            return z3.Bool("nonempty!" + base)
        t = self.truth(v)
        if t is None:
            return z3.Bool(fresh_name("truth"))
        return t

    def as_str(self, v: V):
        if v.k == "str":
            return v.t
        if v.k == "opq":
            return z3.String("s!" + v.t)
        return None

    def as_int(self, v: V):
        if v.k == "int":
            return v.t
        if v.k == "bool":
            return z3.If(v.t, 1, 0)
        if v.k == "opq":
            return z3.Int("i!" + v.t)
        return None

    # ------------------------------------------------------------ scopes
    def lookup(self, name: str, st: St, chain: tuple) -> V | None:
        for sid in chain:
            sc = st.scopes.get(sid)
            if sc is not None and name in sc:
                return sc[name]
        return self.lookup_global(name)

    def lookup_global(self, name: str) -> V | None:
        if name in self.global_scope:
            return self.global_scope[name]
        mod = self.mod
        if mod is self.c._mod:
            # sibling / enclosing closures of the function under contract
            p = getattr(self.fn, "_parent", None)
            while p is not None:
                if isinstance(p, ast.FunctionDef):
                    for q in loader._children_defs(p):
                        if isinstance(q, ast.FunctionDef) and q.name == name:
                            v = V("func", ("def", q, (), mod))
                            self.global_scope[name] = v
                            return v
                p = getattr(p, "_parent", None)
        v = self._module_name(mod, name)
        if v is not None:
            self.global_scope[name] = v
        return v

    def _module_name(self, mod, name, depth=0) -> V | None:
        from . import models
        if name in mod.top:
            node = mod.top[name]
            if isinstance(node, ast.FunctionDef):
                return V("func", ("def", node, (), mod))
            if isinstance(node, ast.ClassDef):
                return V("type", name)
            if isinstance(node, (ast.Assign, ast.AnnAssign)) and node.value is not None:
                return models.module_constant(self, mod, name, node.value)
            return None
        if name in mod.imports:
            src, orig = mod.imports[name]
            if src.startswith("."):
                m2 = src.lstrip(".")
                if m2 and orig and depth < 3:
                    try:
                        return self._module_name(loader.module(m2), orig, depth + 1)
                    except FileNotFoundError:
                        return None
                if not m2 and orig:       # from . import x
                    return V("mod", "pkg." + orig)
            if orig:
                return V("mod", f"{src}.{orig}")
            return V("mod", src)
        if name == "spec" and self.in_clause:
            return V("specmod", "strfuncs")
        if name in ("expander",) and getattr(mod, "is_spec", False):
            return V("func", ("cb", "expander", "total_str"))
        if name in models.BUILTIN_NAMES:
            return V("func", ("builtin", name))
        if name in models.BUILTIN_TYPES:
            return V("type", name)
        if name in models.EXC_NAMES:
            return V("type", name)
        return None

    # ------------------------------------------------------------ expressions
    def ev(self, e: ast.expr, st: St, chain: tuple) -> list[tuple[St, V]]:
        m = getattr(self, "ev_" + type(e).__name__, None)
        if m is None:
            return self._generic_subeval(e, st, chain, f"expr {type(e).__name__}")
        return m(e, st, chain)

    def _generic_subeval(self, e, st, chain, what):
        """frame mode: evaluate children for effects, yield opaque"""
        if self.mode != "frame":
            raise OutOfReach(f"{what}: {loader.norm(e)[:80]} (line {getattr(e,'lineno',0)})")
        self.note_opaque(what)
        kids = [c for c in ast.iter_child_nodes(e) if isinstance(c, ast.expr)]
        return self.bind_seq(kids, st, chain, lambda s, vs: [(s, vopq("unk"))])

    def bind(self, results, fn):
        out = []
        for s, v in results:
            if v.k == "raise":
                out.append((s, v))
            else:
                out.extend(fn(s, v))
        return out

    def bind_seq(self, exprs, st, chain, fn):
        """evaluate exprs left to right; fn(st, [vals]) -> results"""
        def rec(i, s, acc):
            if i == len(exprs):
                return fn(s, acc)
            e = exprs[i]
            if e is None:
                return rec(i + 1, s, acc + [None])
            return self.bind(self.ev(e, s, chain), lambda s2, v: rec(i + 1, s2, acc + [v]))
        return rec(0, st, [])

    def ev_Constant(self, e, st, chain):
        v = e.value
        if isinstance(v, bool):
            return [(st, vbool(v))]
        if isinstance(v, int):
            return [(st, vint(v))]
        if isinstance(v, str):
            return [(st, vstr(v))]
        if v is None:
            return [(st, NONE)]
        if isinstance(v, float):
            return [(st, V("float", f"const{v}"))]
        if v is Ellipsis:
            return [(st, vopq("ellipsis"))]
        if isinstance(v, bytes):
            return [(st, vopq("bytes"))]
        return [(st, self.unsupported("constant", e))]

    def ev_Name(self, e, st, chain):
        v = self.lookup(e.id, st, chain)
        if v is None and e.id == "variant_at_head" and self.in_clause and "variant_at_head" in st.ghost:
            return [(st, st.ghost["variant_at_head"])]
        if v is None and e.id in CTX_NAMES:
            return [(st, V("ctx", "ctx"))]
        if v is None and self.in_clause and self._is_local_of_fn(e.id):
            # a local of the function that is not (yet) assigned on this path
            return [(st, V("unbound", e.id))]
        if v is None:
            if self.mode == "frame":
                self.note_opaque("free name " + e.id)
                return [(st, V("opq", "name:" + e.id))]
            raise OutOfReach(f"unbound name {e.id} (line {e.lineno})")
        return [(st, v)]

    def _is_local_of_fn(self, name) -> bool:
        loc = getattr(self, "_fn_locals", None)
        if loc is None:
            loc = self._fn_locals = self.assigned_names(self.fn.body)
        return name in loc

    def ev_JoinedStr(self, e, st, chain):
        parts = list(e.values)

        def fin(s, vs):
            acc = []
            allknown = True
            for pv in vs:
                t = self._to_strterm(pv, s)
                if t is None:
                    allknown = False
                    break
                acc.append(t)
            if not allknown:
                return [(s, fresh("str", "fstr"))]
            if not acc:
                return [(s, vstr(""))]
            return [(s, vstr(acc[0] if len(acc) == 1 else z3.Concat(*acc)))]
        return self.bind_seq(parts, st, chain, fin)

    def ev_FormattedValue(self, e, st, chain):
        def fin(s, v):
            if e.conversion == -1 and e.format_spec is None:
                t = self._to_strterm(v, s)
                if t is not None:
                    return [(s, vstr(t))]
            return [(s, fresh("str", "fmt"))]
        return self.bind(self.ev(e.value, st, chain), fin)

    def _to_strterm(self, v: V, st: St):
        """str(v) as a term when v's str() is modelled; None otherwise"""
        if v.k == "str":
            return v.t
        if v.k == "int":
            return smt.f_str_of_int(v.t)
        if v.k == "none":
            return z3.StringVal("None")
        return None

    def ev_Tuple(self, e, st, chain):
        if any(isinstance(x, ast.Starred) for x in e.elts):
            return self._generic_subeval(e, st, chain, "starred tuple")
        return self.bind_seq(list(e.elts), st, chain, lambda s, vs: [(s, V("tuple", tuple(vs)))])

    def ev_List(self, e, st, chain):
        if any(isinstance(x, ast.Starred) for x in e.elts):
            return self._generic_subeval(e, st, chain, "starred list")
        return self.bind_seq(list(e.elts), st, chain,
                             lambda s, vs: [(s, self.alloc(s, HList(list(vs))))])

    def ev_Set(self, e, st, chain):
        def fin(s, vs):
            consts = [self.const_of(v) for v in vs]
            if all(c is not None for c in consts):
                return [(s, V("set", frozenset(c[0] for c in consts)))]
            return [(s, self.unsupported("symbolic set literal", e))]
        return self.bind_seq(list(e.elts), st, chain, fin)

    def ev_Dict(self, e, st, chain):
        if any(k is None for k in e.keys):
            return self._generic_subeval(e, st, chain, "dict unpack")
        n = len(e.keys)

        def fin(s, vs):
            ks, vals = vs[:n], vs[n:]
            return [(s, self.alloc(s, HDict(list(zip(ks, vals)))))]
        return self.bind_seq(list(e.keys) + list(e.values), st, chain, fin)

    def const_of(self, v: V):
        """(python constant,) if v is a concrete literal"""
        if v.k == "str" and z3.is_string_value(v.t):
            return (smt._z3str_to_py(v.t),)
        if v.k == "int":
            t = v.t if z3.is_int_value(v.t) else z3.simplify(v.t)
            if z3.is_int_value(t):
                return (t.as_long(),)
        if v.k == "bool" and (z3.is_true(v.t) or z3.is_false(v.t)):
            return (z3.is_true(v.t),)
        if v.k == "none":
            return (None,)
        if v.k == "tuple":
            cs = [self.const_of(x) for x in v.t]
            if all(c is not None for c in cs):
                return (tuple(c[0] for c in cs),)
        return None

    def ev_Lambda(self, e, st, chain):
        return [(st, V("func", ("lambda", e, chain, self.mod)))]

    def ev_IfExp(self, e, st, chain):
        def fin(s, c):
            return self.branch(s, c, lambda s2: self.ev(e.body, s2, chain),
                               lambda s2: self.ev(e.orelse, s2, chain))
        return self.bind(self.ev(e.test, st, chain), fin)

    def feasible(self, st: St, cond) -> bool:
        if z3.is_true(cond):
            return True
        if z3.is_false(cond):
            return False
        # syntactic shortcut: the condition (or its negation) is already a conjunct of the path condition
        cid = cond.get_id()
        ncid = cond.arg(0).get_id() if z3.is_not(cond) else None
        for c in st.pc:
            i = c.get_id()
            if i == cid:
                return True
            if i == ncid:
                return False
            if z3.is_not(c) and c.arg(0).get_id() == cid:
                return False
        # cone of influence: only the conjuncts connected to the condition through shared constants.  A path is
        # pruned only when this SUBSET of the path condition is unsatisfiable together with the condition
        # (sound: a superset is then unsatisfiable too); anything else keeps the path.
        need = set(_consts_of(cond))
        rest = [(c, _consts_of(c)) for c in st.pc]
        cone = []
        changed = True
        while changed and rest:
            changed = False
            keep = []
            for c, vs in rest:
                if vs & need:
                    cone.append(c)
                    need |= vs
                    changed = True
                else:
                    keep.append((c, vs))
            rest = keep
        # 1. arithmetic / propositional skeleton (every other atom a fresh Boolean, every other integer term a
        #    fresh integer): unsat there => unsat; a purely arithmetic condition is decided by it alone
        sk = z3.Solver()
        sk.set("timeout", 300)
        for c in cone:
            sk.add(_skeleton(c))
        sk.add(_skeleton(cond))
        r = sk.check()
        if r == z3.unsat:
            return False
        if _is_arith_only(cond):
            return True
        s = z3.Solver()
        s.set("timeout", 300)
        for c in cone:
            s.add(c)
        s.add(cond)
        return s.check() != z3.unsat

    def choices(self, st: St, alts):
        """alts = [(cond, value)]: fork per feasible alternative"""
        out = []
        for cond, val in alts:
            c = z3.simplify(cond)
            if z3.is_false(c):
                continue
            if self.mode == "value" and not z3.is_true(c) and not self.feasible(st, c):
                continue
            out.append((st.fork(c), val))
        return out

    def branch(self, st: St, cv: V, then_fn, else_fn):
        t = self.truth_st(cv, st)
        t = z3.simplify(t)
        out = []
        if z3.is_true(t):
            return then_fn(st)
        if z3.is_false(t):
            return else_fn(st)
        do_feas = self.mode == "value"
        if (not do_feas) or self.feasible(st, t):
            out.extend(then_fn(st.fork(t)))
        nt = z3.Not(t)
        if (not do_feas) or self.feasible(st, nt):
            out.extend(else_fn(st.fork(nt)))
        self.npaths += 1
        if self.npaths > self.MAX_PATHS:
            raise OutOfReach("path budget exceeded")
        return out

    def ev_BoolOp(self, e, st, chain):
        is_and = isinstance(e.op, ast.And)

        def rec(i, s):
            if i == len(e.values) - 1:
                return self.ev(e.values[i], s, chain)

            def fin(s2, v):
                if is_and:
                    return self.branch(s2, v, lambda s3: rec(i + 1, s3), lambda s3: [(s3, v)])
                return self.branch(s2, v, lambda s3: [(s3, v)], lambda s3: rec(i + 1, s3))
            return self.bind(self.ev(e.values[i], s, chain), fin)
        return rec(0, st)

    def ev_UnaryOp(self, e, st, chain):
        def fin(s, v):
            if isinstance(e.op, ast.Not):
                return [(s, vbool(z3.Not(self.truth_st(v, s))))]
            if isinstance(e.op, ast.USub):
                if v.k in ("int", "bool"):
                    return [(s, vint(-self.as_int(v)))]
                if v.k == "float":
                    return [(s, fresh("float"))]
            if isinstance(e.op, ast.UAdd) and v.k in ("int", "float"):
                return [(s, v)]
            if isinstance(e.op, ast.Invert) and v.k in ("kind", "kindset"):
                from . import pnodes
                r = pnodes.invert(v)
                if r is not None:
                    return [(s, r)]
            return [(s, self.unsupported("unary op", e))]
        return self.bind(self.ev(e.operand, st, chain), fin)

    def ev_NamedExpr(self, e, st, chain):
        def fin(s, v):
            self.assign_name(e.target.id, v, s, chain)
            return [(s, v)]
        return self.bind(self.ev(e.value, st, chain), fin)

    def ev_Compare(self, e, st, chain):
        from . import models

        def rec(i, s, left):
            op = e.ops[i]

            def fin(s2, right):
                rs = models.compare(self, s2, op, left, right, e)
                if i == len(e.ops) - 1:
                    return rs

                def nxt(s3, b):
                    return self.branch(s3, b, lambda s4: rec(i + 1, s4, right),
                                       lambda s4: [(s4, vbool(False))])
                return self.bind(rs, nxt)
            return self.bind(self.ev(e.comparators[i], s, chain), fin)
        return self.bind(self.ev(e.left, st, chain), lambda s, l: rec(0, s, l))

    def ev_BinOp(self, e, st, chain):
        from . import models
        return self.bind_seq([e.left, e.right], st, chain,
                             lambda s, vs: models.binop(self, s, e.op, vs[0], vs[1], e))

    def ev_Subscript(self, e, st, chain):
        from . import models
        if isinstance(e.slice, ast.Slice):
            sl = e.slice
            return self.bind_seq([e.value, sl.lower, sl.upper, sl.step], st, chain,
                                 lambda s, vs: models.slice_(self, s, vs[0], vs[1], vs[2], vs[3], e))
        return self.bind_seq([e.value, e.slice], st, chain,
                             lambda s, vs: models.index(self, s, vs[0], vs[1], e))

    def ev_Attribute(self, e, st, chain):
        from . import models
        return self.bind(self.ev(e.value, st, chain),
                         lambda s, v: models.getattr_(self, s, v, e.attr, e))

    def ev_Call(self, e, st, chain):
        from . import models
        if isinstance(e.func, ast.Name) and e.func.id == "implies" and self.in_clause and len(e.args) == 2:
            # lazy implication: the consequent is only evaluated where the antecedent holds
            return self.bind(self.ev(e.args[0], st, chain),
                             lambda s, a: self.branch(s, a, lambda s2: self.ev(e.args[1], s2, chain),
                                                      lambda s2: [(s2, vbool(True))]))
        if isinstance(e.func, ast.Name) and self.in_clause and e.func.id in ("forall_t", "forall_n") \
                and len(e.args) == 1 and isinstance(e.args[0], ast.Lambda):
            from . import absmodels
            return absmodels.quantifier(self, st, e.func.id, e.args[0], chain)
        if isinstance(e.func, ast.Name) and self.in_clause:
            from . import absmodels
            if e.func.id in absmodels.CLAUSE_BUILTINS and not self.lookup(e.func.id, st, chain):
                return self.bind_seq(list(e.args), st, chain,
                                     lambda s, vs: absmodels.clause_builtin(self, s, e.func.id, vs, {}, e, chain))
        if isinstance(e.func, ast.Name) and getattr(self.c, "node_stack", ""):
            from . import pnodes
            if self.in_clause and e.func.id in pnodes.CLAUSE_BUILTINS and not self.lookup(e.func.id, st, chain):
                return self.bind_seq(list(e.args), st, chain,
                                     lambda s, vs: pnodes.clause_builtin(self, s, e.func.id, vs, {}, e))
            r = pnodes.try_any(self, e, st, chain)
            if r is not None:
                return r
        if isinstance(e.func, ast.Name) and e.func.id == "old" and self.in_clause:
            # old(expr): evaluate against the entry snapshot's ghost state
            cur = st.ghost
            st.ghost = dict(st.entry.ghost) if st.entry is not None else cur
            try:
                rs = self.ev(e.args[0], st, chain)
            finally:
                st.ghost = cur
            out = []
            for s2, v in rs:
                if v.k == "gref" and st.entry is not None:
                    v = st.entry.ghost[v.t]
                if s2 is not st:
                    s2.ghost = dict(cur)
                out.append((s2, v))
            return out
        if any(isinstance(a, ast.Starred) for a in e.args) or any(k.arg is None for k in e.keywords):
            if self.mode != "frame":
                raise OutOfReach(f"star-args call {loader.norm(e)[:60]} (line {e.lineno})")
        args = [a.value if isinstance(a, ast.Starred) else a for a in e.args]
        kwn = [k.arg for k in e.keywords]
        kwv = [k.value for k in e.keywords]
        # generator / comprehension argument of a known consumer is handled in models

        def with_fn(s, f):
            def with_args(s2, vs):
                pos = vs[:len(args)]
                kw = {n: v for n, v in zip(kwn, vs[len(args):]) if n is not None}
                return models.call(self, s2, f, pos, kw, e, chain)
            return self.bind_seq(args + kwv, s, chain, with_args)
        return self.bind(self.ev(e.func, st, chain), with_fn)

    def ev_GeneratorExp(self, e, st, chain):
        return self._comprehension(e, st, chain, "gen")

    def ev_ListComp(self, e, st, chain):
        return self._comprehension(e, st, chain, "list")

    def ev_SetComp(self, e, st, chain):
        return self._comprehension(e, st, chain, "set")

    def ev_DictComp(self, e, st, chain):
        return self._comprehension(e, st, chain, "dict")

    def _comprehension(self, e, st, chain, kind):
        """one generic iteration: the element expression is executed once on an
        arbitrary element (its obligations are collected); ghost fields must be
        unchanged by it (inv-keep).  The result is an unknown-content list."""
        from . import models
        gens = e.generators
        if len(gens) != 1 or gens[0].is_async:
            return self._generic_subeval(e, st, chain, "multi-generator comprehension")
        g = gens[0]

        def with_iter(s, itv):
            # concrete iteration when possible
            items = models.concrete_items(self, s, itv)
            sid = next(self.scope_ids)
            ch2 = (sid,) + chain
            if items is not None and len(items) <= 8 and kind in ("gen", "list") and not g.ifs:
                def rec(i, s2, acc):
                    if i == len(items):
                        return [(s2, self.alloc(s2, HList(list(acc))))]
                    s2.scopes.setdefault(sid, {})
                    self.assign_target(g.target, items[i], s2, ch2)
                    return self.bind(self.ev(e.elt, s2, ch2), lambda s3, v: rec(i + 1, s3, acc + [v]))
                return rec(0, s, [])
            elem = models.generic_element(self, s, itv)
            s.scopes[sid] = {}
            g0 = dict(s.ghost)
            self.assign_target(g.target, elem, s, ch2)
            body = [g.ifs[0]] if g.ifs else []
            if kind == "dict":
                exprs = body + [e.key, e.value]
            else:
                exprs = body + [e.elt]

            def fin(s2, vs):
                self.check_ghost_unchanged(s2, g0, e, "comprehension body")
                s2.ghost = dict(g0)
                ek = vs[-1].k if vs else "opq"
                return [(s2, self.alloc(s2, HList(None, ek if ek in ("str", "int", "bool") else "opq")))]
            res = self.bind_seq(exprs, s, ch2, fin)
            # zero iterations is also possible: same result shape, ghost already g0
            return res
        return self.bind(self.ev(g.iter, st, chain), with_iter)

    def check_ghost_unchanged(self, st: St, g0: dict, node, what: str):
        for name, v0 in g0.items():
            v1 = st.ghost.get(name)
            if v1 is v0:
                continue
            if v0.k == v1.k and v0.k in ("sseq", "kstr"):
                if v0.t.eq(v1.t):
                    continue
                self.oblige("inv-keep", f"{what}: {name} unchanged @ {loader.norm(node)[:80]}", st,
                            v0.t == v1.t)
            elif v0.k == "glist" and v1.k == "glist":
                if v0.t[0] == v1.t[0] and len(v0.t[1]) == len(v1.t[1]):
                    continue
                # message lists may grow inside loops: allowed (abstracted below)
            elif v0.k in ("sqllog", "bool") or name.startswith("field:"):
                continue    # SQL log / memo flag / plain fields: handled by loop havoc, not by this invariant
            else:
                self.oblige("inv-keep", f"{what}: {name} unchanged @ {loader.norm(node)[:80]}", st,
                            z3.BoolVal(False))

    # ------------------------------------------------------------ assignment
    def assign_name(self, name: str, v: V, st: St, chain: tuple):
        if self.c.taint and self.depth == 0 and name in self.c.taint and v.k == "opq":
            v = V("opq", v.t, frozenset(v.tags) | {self.c.taint[name]})
        # nonlocal/global declared?  find the scope that owns the name
        decl = self._decl_scope.get((chain[0], name)) if hasattr(self, "_decl_scope") else None
        if decl is not None:
            st.scopes.setdefault(decl, {})[name] = v
            return
        st.scopes.setdefault(chain[0], {})[name] = v

    def assign_target(self, tgt, v: V, st: St, chain: tuple):
        from . import models
        if isinstance(tgt, ast.Name):
            self.assign_name(tgt.id, v, st, chain)
            return []
        if isinstance(tgt, (ast.Tuple, ast.List)):
            items = models.unpack(self, st, v, len(tgt.elts), tgt)
            for t, iv in zip(tgt.elts, items):
                self.assign_target(t, iv, st, chain)
            return []
        if isinstance(tgt, ast.Attribute):
            rs = self.ev(tgt.value, st, chain)
            for s, recv in rs:
                if s is not st:
                    # forking receivers in assignment targets is not supported
                    if self.mode != "frame":
                        raise OutOfReach("forking assignment target")
                if recv.k != "raise":
                    models.setattr_(self, st, recv, tgt.attr, v, tgt)
            return []
        if isinstance(tgt, ast.Subscript):
            rs = self.bind_seq([tgt.value, tgt.slice if not isinstance(tgt.slice, ast.Slice) else None],
                               st, chain, lambda s, vs: [(s, V("tuple", (vs[0], vs[1] or NONE)))])
            for s, pair in rs:
                if pair.k == "raise":
                    continue
                models.setitem(self, st, pair.t[0], pair.t[1], v, tgt)
            return []
        if isinstance(tgt, ast.Starred):
            self.assign_target(tgt.value, vopq("star"), st, chain)
            return []
        raise OutOfReach(f"assignment target {type(tgt).__name__}")

    # ------------------------------------------------------------ statements
    def block(self, stmts, st: St, chain: tuple):
        cur = [st]
        done = []
        for s_ in stmts:
            if loader.is_dropped_stmt(s_):
                continue
            self._check_asserts(s_, cur, chain)
            nxt = []
            for c in cur:
                for s2, oc in self.stmt(s_, c, chain):
                    if oc[0] == "fall":
                        nxt.append(s2)
                    else:
                        done.append((s2, oc))
            cur = self.dedupe(nxt)
            if TRACE and len(nxt) > 3:
                print(f"  [trace] line {s_.lineno} {type(s_).__name__}: {len(nxt)} -> {len(cur)} states, done={len(done)}", flush=True)
            if not cur:
                break
        return [(c, ("fall",)) for c in cur] + done

    MERGE_THRESHOLD = 6

    def _check_asserts(self, s_, cur, chain):
        if self.c.asserts and self.depth == 0:
            key = loader.norm(s_)[:60]
            for akey, clauses in self.c.asserts.items():
                if key.startswith(akey):
                    self.matched_loops.add("assert:" + akey)
                    for c in cur:
                        for cl in clauses:
                            self._oblige_clause("assert", cl, c, chain, NONE, c.entry, "before " + akey, s_)

    def dedupe(self, states):
        """frame mode: sound over-approximating join of states whose tracked
        (ghost) state, ghost log and handler stack agree: differing locals are
        havoc'ed, the path condition is cut to the common prefix."""
        if self.mode != "frame" or len(states) <= (self.c.merge_threshold or self.MERGE_THRESHOLD):
            return states
        groups: dict = {}
        for s in states:
            groups.setdefault(self.ghost_sig(s), []).append(s)
        return [self.join(g) for g in groups.values()]

    def ghost_sig(self, s: St):
        parts = []
        for k in sorted(s.ghost):
            v = s.ghost[k]
            if v.k == "glist":
                parts.append((k, v.k, v.t[0], tuple(id(e) for e in v.t[1])))
            else:
                parts.append((k, v.k, _tid(v.t)))
        return (tuple(parts), s.log, s.handlers)

    def join(self, group):
        if len(group) == 1:
            return group[0]
        base = group[0].fork()
        # path condition: common prefix
        n = min(len(g.pc) for g in group)
        k = 0
        while k < n and all(g.pc[k].get_id() == base.pc[k].get_id() for g in group[1:]):
            k += 1
        base.pc = base.pc[:k]
        for sid in list(base.scopes):
            d = base.scopes[sid]
            for name in list(d):
                v0 = d[name]
                same = True
                kinds = {v0.k}
                for g in group[1:]:
                    v = g.scopes.get(sid, {}).get(name)
                    if v is None:
                        same = False
                        kinds.add("missing")
                        continue
                    kinds.add(v.k)
                    if not (v is v0 or (v.k == v0.k and _tid(v.t) == _tid(v0.t))):
                        same = False
                if not same:
                    if len(kinds) == 1 and v0.k in ("str", "int", "bool"):
                        d[name] = fresh(v0.k, "j_" + name)
                    elif len(kinds) == 1 and v0.k == "ref":
                        o = base.heap[v0.t]
                        d[name] = self.alloc(base, HList(None, "opq") if isinstance(o, HList) else HDict(None))
                    else:
                        tags = set(v0.tags or ())
                        for g in group[1:]:
                            vv = g.scopes.get(sid, {}).get(name)
                            if vv is not None:
                                tags |= set(vv.tags or ())
                        d[name] = vopq("j_" + name, frozenset(tags))
        for hid in list(base.heap):
            o0 = base.heap[hid]
            its0 = getattr(o0, "items", None)
            for g in group[1:]:
                o = g.heap.get(hid)
                its = getattr(o, "items", None) if o is not None else None
                if its0 is None:
                    break
                if its is None or len(its) != len(its0) or any(
                        _item_sig(a) != _item_sig(b) for a, b in zip(its, its0)):
                    if isinstance(o0, HList):
                        o0.forget()
                    else:
                        o0.items = None
                    its0 = None
                    break
        return base

    def signature(self, s: St):
        def tid(t):
            return t.get_id() if isinstance(t, z3.AstRef) else (t if isinstance(t, (str, int, bool, type(None))) else id(t))
        parts = []
        for k in sorted(s.ghost):
            v = s.ghost[k]
            if v.k == "glist":
                parts.append((k, v.k, v.t[0], len(v.t[1])))
            else:
                parts.append((k, v.k, tid(v.t)))
        sc = []
        for sid in sorted(s.scopes):
            d = s.scopes[sid]
            for n in sorted(d):
                v = d[n]
                sc.append((sid, n, v.k, tid(v.t)))
        hp = []
        for hid in sorted(s.heap):
            o = s.heap[hid]
            its = getattr(o, "items", None)
            hp.append((hid, None if its is None else len(its)))
        return (tuple(parts), tuple(sc), tuple(hp), s.log, tuple(c.get_id() for c in s.pc))

    def stmt(self, s_, st: St, chain: tuple):
        m = getattr(self, "st_" + type(s_).__name__, None)
        if m is None:
            raise OutOfReach(f"statement {type(s_).__name__} (line {s_.lineno})")
        return m(s_, st, chain)

    def _exprs_to_outcomes(self, results, fn=None):
        out = []
        for s, v in results:
            if v.k == "raise":
                out.append((s, ("raise", v.t[0], v.t[1])))
            elif fn is not None:
                out.extend(fn(s, v))
            else:
                out.append((s, ("fall",)))
        return out

    def st_Pass(self, s_, st, chain):
        return [(st, ("fall",))]

    def st_Import(self, s_, st, chain):
        for a in s_.names:
            self.assign_name(a.asname or a.name.split(".")[0], V("mod", a.name), st, chain)
        return [(st, ("fall",))]

    def st_ImportFrom(self, s_, st, chain):
        for a in s_.names:
            v = None
            if s_.level and s_.module:
                try:
                    v = self._module_name(loader.module(s_.module), a.name)
                except FileNotFoundError:
                    v = None
            if v is None:
                v = V("mod", f"{s_.module}.{a.name}")
            self.assign_name(a.asname or a.name, v, st, chain)
        return [(st, ("fall",))]

    def st_Global(self, s_, st, chain):
        return [(st, ("fall",))]

    def st_Nonlocal(self, s_, st, chain):
        if not hasattr(self, "_decl_scope"):
            self._decl_scope = {}
        for n in s_.names:
            for sid in chain[1:]:
                if n in st.scopes.get(sid, {}):
                    self._decl_scope[(chain[0], n)] = sid
                    break
        return [(st, ("fall",))]

    def st_FunctionDef(self, s_, st, chain):
        self.assign_name(s_.name, V("func", ("def", s_, chain, self.mod)), st, chain)
        return [(st, ("fall",))]

    def st_Expr(self, s_, st, chain):
        if isinstance(s_.value, ast.Constant):
            return [(st, ("fall",))]
        return self._exprs_to_outcomes(self.ev(s_.value, st, chain))

    def _abstract_target(self, tgt):
        return isinstance(tgt, ast.Name) and tgt.id in self.c.abstract_locals and self.depth == 0

    def st_Assign(self, s_, st, chain):
        if len(s_.targets) == 1 and self._abstract_target(s_.targets[0]):
            from . import absmodels
            self.assign_name(s_.targets[0].id, absmodels.make_abstract_local(
                self, st, self.c.abstract_locals[s_.targets[0].id]), st, chain)
            return [(st, ("fall",))]

        def fin(s, v):
            for t in s_.targets:
                self.assign_target(t, v, s, chain)
            return [(s, ("fall",))]
        return self._exprs_to_outcomes(self.ev(s_.value, st, chain), fin)

    def st_AnnAssign(self, s_, st, chain):
        if s_.value is None:
            return [(st, ("fall",))]
        if self._abstract_target(s_.target):
            from . import absmodels
            self.assign_name(s_.target.id, absmodels.make_abstract_local(
                self, st, self.c.abstract_locals[s_.target.id]), st, chain)
            return [(st, ("fall",))]

        def fin(s, v):
            self.assign_target(s_.target, v, s, chain)
            return [(s, ("fall",))]
        return self._exprs_to_outcomes(self.ev(s_.value, st, chain), fin)

    def st_AugAssign(self, s_, st, chain):
        from . import models
        load = _as_load(s_.target)

        def fin(s, vs):
            rs = models.binop(self, s, s_.op, vs[0], vs[1], s_, inplace=True)

            def fin2(s2, v):
                if v.k != "inplace-done":
                    self.assign_target(s_.target, v, s2, chain)
                return [(s2, ("fall",))]
            return self._exprs_to_outcomes(rs, fin2)
        rs = self.bind_seq([load, s_.value], st, chain, lambda s, vs: [(s, V("tuple", tuple(vs)))])
        return self._exprs_to_outcomes(rs, lambda s, v: fin(s, list(v.t)))

    def st_Return(self, s_, st, chain):
        if s_.value is None:
            return [(st, ("return", NONE, s_))]
        return self._exprs_to_outcomes(self.ev(s_.value, st, chain),
                                       lambda s, v: [(s, ("return", v, s_))])

    def st_Continue(self, s_, st, chain):
        return [(st, ("continue",))]

    def st_Break(self, s_, st, chain):
        return [(st, ("break",))]

    def st_Delete(self, s_, st, chain):
        from . import models
        out = [(st, ("fall",))]
        for t in s_.targets:
            if isinstance(t, ast.Subscript):
                def fin(s, vs, t=t):
                    return models.delitem(self, s, vs[0], vs[1], t)
                rs = self.bind_seq([t.value, t.slice], st, chain, fin)
                out = self._exprs_to_outcomes(rs)
            elif isinstance(t, ast.Name):
                st.scopes.get(chain[0], {}).pop(t.id, None)
            else:
                raise OutOfReach("del target")
        return out

    def st_Assert(self, s_, st, chain):
        # TYPE_CHECKING-only asserts and isinstance asserts are handled like
        # any other: failing is AssertionError
        def fin(s, v):
            t = z3.simplify(self.truth_st(v, s))
            if z3.is_true(t):
                return [(s, ("fall",))]
            if self.mode == "frame":
                return [(s.assume(t), ("fall",))]
            return self.check(s, t, "AssertionError", s_, lambda s2: [(s2, ("fall",))])
        return self._exprs_to_outcomes(self.ev(s_.test, st, chain), fin)

    def st_Raise(self, s_, st, chain):
        if s_.exc is None:
            return [(st, ("raise", "AnyException", "re-raise"))]
        name = "Exception"
        e = s_.exc
        if isinstance(e, ast.Call):
            e = e.func
        if isinstance(e, (ast.Name, ast.Attribute)):
            name = loader.norm(e)
        return [(st, ("raise", name, "explicit raise"))]

    def st_If(self, s_, st, chain):
        # `if TYPE_CHECKING:` bodies never run
        if isinstance(s_.test, ast.Name) and s_.test.id == "TYPE_CHECKING":
            return self.block(s_.orelse, st, chain)

        def fin(s, c):
            rs = self.branch(s, c,
                             lambda s2: [(x, V("oc", oc)) for x, oc in self.block(s_.body, s2, chain)],
                             lambda s2: [(x, V("oc", oc)) for x, oc in self.block(s_.orelse, s2, chain)])
            return [(x, v.t) for x, v in rs]
        return self._exprs_to_outcomes(self.ev(s_.test, st, chain), fin)

    # may-raise with handler awareness -------------------------------------
    def check(self, st: St, cond, exc: str, node, cont, watch=None, tag="", hints=None):
        """operation at `node` raises `exc` unless cond.  cont(st) continues."""
        cond = z3.simplify(cond)
        if z3.is_true(cond):
            return cont(st)
        if self.mode == "frame" or self.in_clause:
            # contract clauses / spec functions are evaluated inside their
            # envelope: raising operations are assumed not to raise there
            return cont(st.assume(cond))
        caught = any(any(exc_matches(exc, h) for h in hs) for hs in st.handlers)
        allowed = any(exc_matches(exc, r) for r in self.c.raises)
        if caught or allowed:
            out = []
            if self.feasible(st, cond):
                out.extend(cont(st.fork(cond)))
            if self.feasible(st, z3.Not(cond)):
                out.append((st.fork(z3.Not(cond)), ("raise", exc, loader.norm(node)[:80])))
            return out
        self.oblige("safety", node, st, cond, exc=exc, watch=watch, tag=tag, hints=hints)
        return cont(st.assume(cond))

    def check_v(self, st: St, cond, exc: str, node, value_fn, watch=None, tag="", hints=None):
        """expression-level variant: value_fn(st) -> [(st, V)]"""
        rs = self.check(st, cond, exc, node, lambda s: [(s, ("val", value_fn(s)))], watch=watch, tag=tag,
                        hints=hints)
        out = []
        for s, oc in rs:
            if oc[0] == "val":
                out.extend(oc[1])
            else:
                out.append((s, RAISE(oc[1], oc[2])))
        return out

    def st_Try(self, s_, st, chain):
        hnames = []
        for h in s_.handlers:
            if h.type is None:
                hnames.append(["BaseException"])
            elif isinstance(h.type, ast.Tuple):
                hnames.append([loader.norm(x) for x in h.type.elts])
            else:
                hnames.append([loader.norm(h.type)])
        flat = frozenset(n for hs in hnames for n in hs)
        st.handlers = st.handlers + (flat,)
        depth = len(st.handlers)
        # frame mode: any statement of the body may raise "something"
        snapshots = []
        if self.mode == "frame" and (s_.handlers or s_.finalbody):
            self._snap_stack = getattr(self, "_snap_stack", [])
            self._snap_stack.append(snapshots)
        try:
            body_out = self.block_snap(s_.body, st, chain, snapshots if self.mode == "frame" else None)
        finally:
            if self.mode == "frame" and (s_.handlers or s_.finalbody):
                self._snap_stack.pop()
        results = []

        def pop_handlers(s):
            s.handlers = s.handlers[:depth - 1]
            return s
        pending = []
        for s, oc in body_out:
            pop_handlers(s)
            if oc[0] == "raise":
                pending.append((s, oc))
            elif oc[0] == "fall" and s_.orelse:
                results.extend(self.block(s_.orelse, s, chain))
            else:
                results.append((s, oc))
        if self.mode == "frame":
            seen = set()
            for s in snapshots:
                sig = self.signature(s)
                if sig in seen:
                    continue
                seen.add(sig)
                s2 = s.fork()
                pop_handlers(s2)
                pending.append((s2, ("raise", "AnyException", "any statement in try body")))
        after = []
        for s, oc in pending:
            exc = oc[1]
            handled = False
            for h, names in zip(s_.handlers, hnames):
                if exc == "AnyException" or any(exc_matches(exc, n) for n in names):
                    s2 = s.fork() if exc == "AnyException" else s
                    if h.name:
                        self.assign_name(h.name, vopq("exc"), s2, chain)
                    after.extend(self.block(h.body, s2, chain))
                    handled = exc != "AnyException"
                    if handled:
                        break
            if not handled:
                after.append((s, oc))
        results.extend(after)
        if not s_.finalbody:
            return results
        final = []
        for s, oc in results:
            for s2, oc2 in self.block(s_.finalbody, s, chain):
                if oc2[0] == "fall":
                    final.append((s2, oc))
                else:
                    final.append((s2, oc2))
        return final

    def block_snap(self, stmts, st, chain, snapshots):
        if snapshots is None:
            return self.block(stmts, st, chain)
        cur = [st]
        done = []
        for s_ in stmts:
            if loader.is_dropped_stmt(s_):
                continue
            self._check_asserts(s_, cur, chain)
            nxt = []
            for c in cur:
                snapshots.append(c.fork())
                for s2, oc in self.stmt(s_, c, chain):
                    if oc[0] == "fall":
                        nxt.append(s2)
                    else:
                        done.append((s2, oc))
            cur = self.dedupe(nxt)
            if not cur:
                break
        for c in cur:
            snapshots.append(c.fork())
        return [(c, ("fall",)) for c in cur] + done

    def st_With(self, s_, st, chain):
        from . import models
        # context managers known to the package: ctx.begline_disabled
        # (BegLineDisableManager: __enter__/__exit__ only touch the two
        # begline fields).  Others: enter/exit are opaque, effect-free on ghosts.
        items = [i.context_expr for i in s_.items]

        def fin(s, vs):
            for it, v in zip(s_.items, vs):
                if it.optional_vars is not None:
                    self.assign_target(it.optional_vars, vopq("with"), s, chain)
                models.with_enter(self, s, v, it.context_expr)
            out = []
            for s2, oc in self.block(s_.body, s, chain):
                for v in vs:
                    models.with_exit(self, s2, v, s_)
                out.append((s2, oc))
            return out
        rs = self.bind_seq(items, st, chain, lambda s, vs: [(s, V("tuple", tuple(vs)))])
        return self._exprs_to_outcomes(rs, lambda s, v: fin(s, list(v.t)))

    # loops ------------------------------------------------------------------
    def loop_spec(self, s_):
        head = loader.norm(s_.iter) if isinstance(s_, ast.For) else loader.norm(s_.test)
        fp = ("for " + loader.norm(s_.target) + " in " + head) if isinstance(s_, ast.For) else ("while " + head)
        if fp in self.c.loops:
            self.matched_loops.add(fp)
        elif self.c.default_loop and any(isinstance(n, ast.Call) for b in s_.body for n in ast.walk(b)):
            return fp, self.c.default_loop
        return fp, self.c.loops.get(fp)

    def assigned_names(self, body) -> set[str]:
        names = set()
        stack = list(body)
        while stack:
            n = stack.pop()
            if isinstance(n, (ast.FunctionDef, ast.Lambda, ast.ClassDef)):
                if isinstance(n, ast.FunctionDef):
                    names.add(n.name)
                continue
            if isinstance(n, ast.Name) and isinstance(n.ctx, (ast.Store, ast.Del)):
                names.add(n.id)
            stack.extend(ast.iter_child_nodes(n))
        return names

    def mutated_names(self, body) -> set[str]:
        """local names whose heap object may be mutated in the loop body"""
        names = set()
        for n in ast.walk(ast.Module(body=list(body), type_ignores=[])):
            if isinstance(n, ast.Call) and isinstance(n.func, ast.Attribute) and \
                    isinstance(n.func.value, ast.Name) and n.func.attr in MUTATING_METHODS:
                names.add(n.func.value.id)
            if isinstance(n, ast.Call) and isinstance(n.func, ast.Attribute) and n.func.attr in MUTATING_METHODS \
                    and isinstance(n.func.value, ast.Subscript) and isinstance(n.func.value.value, ast.Name):
                names.add(n.func.value.value.id)     # d[k].add(v) mutates d (defaultdict rows)
            if isinstance(n, ast.Subscript) and isinstance(n.ctx, (ast.Store, ast.Del)) and \
                    isinstance(n.value, ast.Name):
                names.add(n.value.id)
            if isinstance(n, ast.AugAssign) and isinstance(n.target, ast.Name):
                names.add(n.target.id)
        return names

    def calls_nonlocal_writers(self, body, st, chain) -> set[str]:
        """names declared nonlocal by closures called in the body (expr_fn's tokidx)"""
        out = set()
        for n in ast.walk(ast.Module(body=list(body), type_ignores=[])):
            if isinstance(n, ast.Nonlocal):
                out.update(n.names)
        return out

    def havoc(self, st: St, chain, names, mutated, node):
        for n in sorted(names):
            cur = self.lookup(n, st, chain)
            decl = None
            for sid in chain:
                if n in st.scopes.get(sid, {}):
                    decl = sid
                    break
            sid = decl if decl is not None else chain[0]
            kinds = self._havoc_kind.get((id(node), n))
            if cur is None:
                nv = vopq("hv_" + n)
            elif kinds and len(kinds) == 1 and next(iter(kinds)) in ("int", "bool", "str"):
                nv = fresh(next(iter(kinds)), "hv_" + n)
            elif cur.k == "ref":
                o = st.heap[cur.t]
                nv = self.alloc(st, HList(None, getattr(o, "elem", "opq")) if isinstance(o, HList) else HDict(None))
            elif cur.k == "func":
                nv = cur
            else:
                nv = vopq("hv_" + n)
            st.scopes.setdefault(sid, {})[n] = nv
        for n in sorted(mutated - names):
            cur = self.lookup(n, st, chain)
            if cur is not None and cur.k == "ref":
                o = st.heap[cur.t]
                if type(o).__name__ in ("HSet", "HRel", "HKinds"):
                    from . import absmodels
                    absmodels.havoc_abstract(self, st, cur)
                    continue
                if isinstance(o, HList):
                    st.heap[cur.t] = HList(None, o.elem if o.items is None else self._elem_kind(o.items))
                elif isinstance(o, HDict):
                    st.heap[cur.t] = HDict(None)

    def _elem_kind(self, items):
        ks = {v.k for v in items}
        if len(ks) == 1 and next(iter(ks)) in ("str", "int", "bool"):
            return next(iter(ks))
        return "opq" if ks else "str?"

    _havoc_kind: dict = {}

    def infer_havoc_kinds(self, s_, st, chain, names, body):
        """kinds of loop-assigned variables: pre-loop kind joined with the kinds
        syntactically evident from the body (constants, str methods, len(),
        arithmetic).  A single kind in {int,bool,str} => typed havoc; otherwise
        opaque."""
        for n in names:
            ks = set()
            cur = self.lookup(n, st, chain)
            if cur is not None:
                ks.add(cur.k)
            for a in ast.walk(ast.Module(body=list(body), type_ignores=[])):
                tgts = []
                if isinstance(a, ast.Assign):
                    tgts = [(t, a.value) for t in a.targets]
                elif isinstance(a, ast.AnnAssign) and a.value is not None:
                    tgts = [(a.target, a.value)]
                elif isinstance(a, ast.AugAssign):
                    tgts = [(a.target, None)]
                for t, val in tgts:
                    if isinstance(t, ast.Name) and t.id == n:
                        ks.add(self._syntactic_kind(val, st, chain) if val is not None else (cur.k if cur else "opq"))
                    elif isinstance(t, (ast.Tuple, ast.List)) and any(
                            isinstance(x, ast.Name) and x.id == n for x in ast.walk(t)):
                        ks.add("opq")
                if isinstance(a, (ast.For, ast.comprehension)) and any(
                        isinstance(x, ast.Name) and x.id == n for x in ast.walk(a.target)):
                    ks.add("opq")
                if isinstance(a, ast.NamedExpr) and a.target.id == n:
                    ks.add("opq")
            self._havoc_kind[(id(s_), n)] = ks

    def _syntactic_kind(self, e, st, chain) -> str:
        if isinstance(e, ast.Constant):
            if isinstance(e.value, bool):
                return "bool"
            if isinstance(e.value, int):
                return "int"
            if isinstance(e.value, str):
                return "str"
            if e.value is None:
                return "none"
        if isinstance(e, ast.JoinedStr):
            return "str"
        if isinstance(e, ast.Call):
            f = e.func
            if isinstance(f, ast.Name) and f.id in ("len", "int", "ord"):
                return "int"
            if isinstance(f, ast.Name) and f.id in ("str", "chr"):
                return "str"
            if isinstance(f, ast.Name) and f.id in ("expander",):
                return "str"
            if isinstance(f, ast.Attribute) and f.attr in (
                    "strip", "lstrip", "rstrip", "lower", "upper", "format", "join", "replace",
                    "removeprefix", "removesuffix"):
                return "str"
            if isinstance(f, ast.Attribute) and f.attr in ("find", "rfind", "index", "count"):
                return "int"
        if isinstance(e, ast.BinOp):
            l = self._syntactic_kind(e.left, st, chain)
            r = self._syntactic_kind(e.right, st, chain)
            if l == r and l in ("int", "str"):
                return l
            if isinstance(e.op, (ast.Add, ast.Sub)) and "int" in (l, r) and {l, r} <= {"int", "name"}:
                return "int"
        if isinstance(e, ast.Name):
            v = self.lookup(e.id, st, chain)
            if v is not None and v.k in ("int", "str", "bool"):
                return v.k
        if isinstance(e, ast.Compare):
            return "bool"
        return "opq"

    def st_For(self, s_, st, chain):
        from . import models

        def with_iter(s, itv):
            items = models.concrete_items(self, s, itv)
            if items is not None and len(items) <= 6 and not s_.orelse:
                return self._unrolled(s_, s, chain, items)
            return self._havoc_loop(s_, s, chain, itv)
        return self._exprs_to_outcomes(self.ev(s_.iter, st, chain), with_iter)

    def _unrolled(self, s_, st, chain, items):
        cur = [st]
        done = []
        for it in items:
            nxt = []
            for c in cur:
                self.assign_target(s_.target, it, c, chain)
                for s2, oc in self.block(s_.body, c, chain):
                    if oc[0] in ("fall", "continue"):
                        nxt.append(s2)
                    elif oc[0] == "break":
                        done.append((s2, ("fall",)))
                    else:
                        done.append((s2, oc))
            cur = nxt
        return [(c, ("fall",)) for c in cur] + done

    def _havoc_loop(self, s_, st, chain, itv):
        from . import models
        fp, spec = self.loop_spec(s_)
        is_for = isinstance(s_, ast.For)
        names = self.assigned_names(s_.body) | self.calls_nonlocal_writers(s_.body, st, chain)
        if is_for:
            names |= self.assigned_names([s_.target]) if not isinstance(s_.target, ast.Name) else {s_.target.id}
        mutated = self.mutated_names(s_.body)
        self.infer_havoc_kinds(s_, st, chain, names, s_.body)
        head = st.fork()
        self.havoc(head, chain, names, mutated, s_)
        if self._loop_may_log(s_.body) or any(isinstance(n, ast.Call) for b in s_.body for n in ast.walk(b)):
            # the body may run SQL / clear the memo: both are unknown at the loop head
            # unless the sidecar invariant pins the memo flag
            if "memo_valid" in head.ghost and not (spec and "memo_valid" in spec.get("havoc_ghost", [])):
                if self._body_touches_db(s_.body):
                    head.ghost["memo_valid"] = V("bool", z3.Bool(fresh_name("hv_memo")))
                    lg = head.ghost.get("sql_log")
                    if lg is not None:
                        head.ghost["sql_log"] = V("sqllog", lg.t + (("loop", "<loop>", None, V("tuple", ())),))
        pkey = "processed"
        if spec and spec.get("foreach") and is_for:
            from . import absmodels
            pkey, psort, pempty, _ = absmodels.processed_key(itv)
        outer_processed = st.ghost.get(pkey)
        if spec and spec.get("foreach") and is_for:
            st.ghost[pkey] = V("zarr", pempty)       # nothing processed on entry (inv-init)
            head.ghost[pkey] = V("zarr", z3.Const(fresh_name(pkey), psort))
        if spec and (spec.get("havoc_ghost") or spec.get("invariant")):
            self._apply_loop_invariant(s_, st, head, chain, spec, fp)
        if spec and spec.get("foreach") and is_for:
            if outer_processed is None:
                st.ghost.pop(pkey, None)
            else:
                st.ghost[pkey] = outer_processed
        self._outer_processed = (pkey, outer_processed)
        # variables that are Optional[scalar] across iterations: one head state
        # per combination (none / fresh scalar)
        heads = [head]
        for n in sorted(names):
            ks = self._havoc_kind.get((id(s_), n)) or set()
            if "none" in ks and len(ks) == 2 and (ks - {"none"}) <= {"str", "int", "bool"}:
                other = next(iter(ks - {"none"}))
                sid = next((sid for sid in chain if n in head.scopes.get(sid, {})), chain[0])
                new_heads = []
                for h in heads:
                    h1 = h.fork()
                    h1.scopes.setdefault(sid, {})[n] = NONE
                    h2 = h.fork()
                    h2.scopes.setdefault(sid, {})[n] = fresh(other, "hv_" + n)
                    new_heads += [h1, h2]
                heads = new_heads
        if len(heads) > 1:
            out = []
            for h in heads:
                out.extend(self._loop_from_head(s_, h, chain, itv, spec, fp, is_for))
            return out
        return self._loop_from_head(s_, head, chain, itv, spec, fp, is_for)

    def _loop_from_head(self, s_, head, chain, itv, spec, fp, is_for):
        from . import models
        # message lists may grow in the loop: abstract to unknown base
        for gname, gv in list(head.ghost.items()):
            if gv.k == "glist" and self._loop_may_log(s_.body):
                head.ghost[gname] = V("glist", (fresh_name("lst"), []))
        g_head = dict(head.ghost)
        results = []
        # the loop may run zero times: exit state = head state (havoc'ed) is a
        # sound over-approximation of "entry state" as well
        exit_states = []
        body_state = head.fork()
        foreach = bool(spec and spec.get("foreach")) and is_for
        member_of = None
        cur_title = None
        pkey, saved_processed = getattr(self, "_outer_processed", ("processed", None))
        if foreach:
            from . import absmodels
            proc = head.ghost[pkey].t
            qsort = absmodels.processed_key(itv)[3]
            body_state = head.fork()
            r = absmodels.iter_element(self, body_state, itv, proc)
            if r is None:
                raise OutOfReach("foreach over a non-abstract iterable")
            elem, cur_title, member_of = r
            self.assign_target(s_.target, elem, body_state, chain)
            body_starts = [body_state]
            ex = head.fork()
            if member_of is not None:
                q = z3.Const(fresh_name("q"), qsort)
                ex.pc.append(z3.ForAll([q], z3.Implies(z3.Select(member_of(ex), q), z3.Select(proc, q))))
            if saved_processed is not None:
                ex.ghost[pkey] = saved_processed
            else:
                ex.ghost.pop(pkey, None)
            exit_states.append(ex)
        elif is_for and spec and spec.get("exhaustive") and itv is not None and itv.k in ("gref", "nodeiter") \
                and itv.t == getattr(self.c, "node_stack", None):
            # a scan of the node stack whose body neither writes the stack nor assigns locals: when the loop runs to
            # exhaustion, every node on the stack took a fall-through path of the body.  Node kinds range over the
            # finite NodeKind universe, so the fact is instantiated for each member.
            from . import pnodes
            extra_locals = self.assigned_names(s_.body)
            if extra_locals:
                raise OutOfReach(f"exhaustive loop assigns locals {sorted(extra_locals)}")
            elem = pnodes.element(self, body_state, itv.t)
            # type invariant: the kind of a node is a NodeKind member
            body_state.pc.append(pnodes.member_of(elem.t[0], pnodes.universe()))
            self.assign_target(s_.target, elem, body_state, chain)
            body_starts = [body_state]
            self._exh = {"k": elem.t[0], "n0": len(body_state.pc), "falls": [], "head": head,
                         "seq": head.ghost[itv.t].t, "field": itv.t, "exit_index": len(exit_states)}
            exit_states.append(head.fork())
        elif is_for:
            elem = models.generic_element(self, body_state, itv)
            self.assign_target(s_.target, elem, body_state, chain)
            body_starts = [body_state]
            exit_states.append(head.fork())
        else:
            body_starts = []
            for s2, tv in self.ev(s_.test, body_state, chain):
                if tv.k == "raise":
                    results.append((s2, ("raise", tv.t[0], tv.t[1])))
                    continue
                t = z3.simplify(self.truth_st(tv, s2))
                if not z3.is_false(t):
                    body_starts.append(s2.fork(t))
                if not z3.is_true(t):
                    exit_states.append(s2.fork(z3.Not(t)))
        for bs in body_starts:
            # values of the loop-assigned locals at the start of this iteration: `<name>_at_head` in iteration_post
            head_vals = {}
            for nm in self.assigned_names(s_.body):
                hv = self.lookup(nm, bs, chain)
                if hv is not None:
                    head_vals[nm + "_at_head"] = hv
            self._head_vals = head_vals
            vb = None
            saved_vh = bs.ghost.get("variant_at_head")
            if spec and spec.get("variant"):
                # value of the variant at the start of this iteration; inner loop invariants may mention it
                # as `variant_at_head`
                rb = self.eval_clause(spec["variant"], bs, chain)
                if len(rb) == 1 and rb[0][1].k == "int":
                    vb = rb[0][1].t
                    bs.ghost = dict(bs.ghost)
                    bs.ghost["variant_at_head"] = V("int", vb)
            for s2, oc in self.block(s_.body, bs, chain):
                exh = getattr(self, "_exh", None)
                if exh is not None and oc[0] in ("fall", "continue"):
                    g_now = s2.ghost.get(exh["field"])
                    if g_now is None or not g_now.t.eq(exh["seq"]):
                        raise OutOfReach("exhaustive loop body changes the node stack")
                    exh["falls"].append(list(s2.pc[exh["n0"]:]))
                if spec and spec.get("variant"):
                    s2.ghost = dict(s2.ghost)
                    if saved_vh is None:
                        s2.ghost.pop("variant_at_head", None)
                    else:
                        s2.ghost["variant_at_head"] = saved_vh
                self._head_vals = head_vals
                if oc[0] in ("fall", "continue"):
                    if foreach and cur_title is not None:
                        s2.ghost = dict(s2.ghost)
                        s2.ghost[pkey] = V("zarr", z3.Store(s2.ghost[pkey].t, cur_title, True))
                    if spec and spec.get("iteration_post"):
                        # postconditions of one iteration (not invariants: neither checked on entry nor assumed)
                        self._check_loop_invariant(s_, s2, chain, {"invariant": spec["iteration_post"]}, fp, "iter-post")
                    if spec and spec.get("invariant"):
                        self._check_loop_invariant(s_, s2, chain, spec, fp, "inv-keep")
                    else:
                        self.check_ghost_unchanged(s2, g_head, s_, f"loop[{fp[:60]}]")
                    if spec and spec.get("variant"):
                        self._check_variant(s_, vb, s2, chain, spec, fp)
                elif oc[0] == "break":
                    s2.ghost = dict(s2.ghost)
                    exit_states.append(s2)
                else:
                    results.append((s2, oc))
        exh = getattr(self, "_exh", None)
        if exh is not None:
            self._exh = None
            from . import pnodes
            es = exit_states[exh["exit_index"]]
            for n in pnodes.universe():
                cst = z3.StringVal(pnodes.code(n))
                alts = [z3.And(*[z3.substitute(c, (exh["k"], cst)) for c in f]) if f else z3.BoolVal(True)
                        for f in exh["falls"]]
                es.pc.append(z3.Implies(z3.Contains(exh["seq"], cst), z3.Or(*alts) if alts else z3.BoolVal(False)))
        for es in exit_states:
            if s_.orelse:
                results.extend(self.block(s_.orelse, es, chain))
            else:
                results.append((es, ("fall",)))
        return results

    def _body_touches_db(self, body) -> bool:
        names = getattr(self.reg, "db_names", None)
        for b in body:
            for n in ast.walk(b):
                if isinstance(n, ast.Attribute) and n.attr in ("db_conn", "cache_clear"):
                    return True
                if isinstance(n, ast.Call):
                    f = n.func
                    nm = f.id if isinstance(f, ast.Name) else (f.attr if isinstance(f, ast.Attribute) else None)
                    if names is None or nm is None or nm in names:
                        return True
        return False

    def _loop_may_log(self, body) -> bool:
        names = self.reg.may_log_names
        for n in ast.walk(ast.Module(body=list(body), type_ignores=[])):
            if isinstance(n, ast.Call):
                if names is None:
                    return True
                f = n.func
                nm = f.id if isinstance(f, ast.Name) else (f.attr if isinstance(f, ast.Attribute) else None)
                if nm is None or nm in names:
                    return True
        return False

    def _apply_loop_invariant(self, s_, entry: St, head: St, chain, spec, fp):
        """ghost fields named in havoc_ghost become fresh; invariant clauses are
        checked on the entry state (inv-init) and assumed on the head state"""
        self._check_loop_invariant(s_, entry, chain, spec, fp, "inv-init")
        for gname in spec.get("havoc_ghost", []):
            if gname == "memo_valid":
                head.ghost[gname] = V("bool", z3.Bool(fresh_name("hv_memo")))
            elif gname == "M":
                from . import absmodels
                head.ghost[gname] = V("zarr", z3.Const(fresh_name("hv_M"), absmodels.TSet))
            elif gname == getattr(self.c, "node_stack", None):
                head.ghost[gname] = V("kstr", z3.String(fresh_name("hv_" + gname)))
            else:
                head.ghost[gname] = V("sseq", z3.Const(fresh_name("hv_" + gname), SeqS))
        for cl in spec.get("invariant", []):
            for s2, v in self.eval_clause(cl, head, chain):
                if v.k != "raise":
                    head.pc.append(self.truth_st(v, s2))

    def _check_loop_invariant(self, s_, st: St, chain, spec, fp, kind):
        extra = dict(getattr(self, "_head_vals", {}) or {}) if kind == "iter-post" else None
        for cl in spec.get("invariant", []):
            for s2, v in self.eval_clause(cl, st, chain, extra):
                if v.k == "raise":
                    self.oblige(kind, f"{fp[:60]} :: {cl}", s2, z3.BoolVal(False), detail="clause raised")
                else:
                    self.oblige(kind, f"{fp[:60]} :: {cl}", s2, self.truth_st(v, s2))

    def _check_variant(self, s_, vb, after: St, chain, spec, fp):
        """termination: the integer variant is non-negative at the start of an iteration and strictly smaller
        at its end"""
        cl = spec["variant"]
        a = self.eval_clause(cl, after, chain)
        if len(a) == 1 and vb is not None and a[0][1].k == "int":
            self.oblige("variant", f"{fp[:60]} :: {cl}", a[0][0],
                        z3.And(vb >= 0, a[0][1].t < vb))
        else:
            self.oblige("variant", f"{fp[:60]} :: {cl}", after, z3.BoolVal(False), detail="variant not int")

    def st_While(self, s_, st, chain):
        return self._havoc_loop(s_, st, chain, None)

    # ------------------------------------------------------------ clauses
    in_clause = 0

    def eval_clause(self, src: str, st: St, chain: tuple, extra: dict | None = None):
        e = ast.parse(src, mode="eval").body
        sid = next(self.scope_ids)
        st.scopes[sid] = dict(extra or {})
        st.scopes[sid].setdefault("ctx", V("ctx", "ctx"))
        self.in_clause += 1
        try:
            return self.ev(e, st, (sid,) + chain)
        finally:
            self.in_clause -= 1

    # ------------------------------------------------------------ run
    def initial_state(self) -> tuple[St, tuple]:
        from . import models
        st = St()
        sid = next(self.scope_ids)
        outer = next(self.scope_ids)
        st.scopes[sid] = {}
        st.scopes[outer] = {}
        for name, spec in self.c.free.items():
            st.scopes[outer][name] = models.make_param(self, st, name, spec)
        a = self.fn.args
        allargs = list(a.posonlyargs) + list(a.args) + list(a.kwonlyargs)
        for arg in allargs:
            spec = self.c.params.get(arg.arg)
            if spec is None:
                spec = "ctx" if arg.arg in CTX_NAMES else ("opq" if self.mode == "frame" else None)
            if spec is None:
                raise OutOfReach(f"parameter {arg.arg} has no kind in the contract")
            st.scopes[sid][arg.arg] = models.make_param(self, st, arg.arg, spec)
        if a.vararg:
            st.scopes[sid][a.vararg.arg] = models.make_param(
                self, st, a.vararg.arg, self.c.params.get(a.vararg.arg, "opqtuple"))
        if a.kwarg:
            st.scopes[sid][a.kwarg.arg] = vopq("kwargs")
        models.init_ghost(self, st)
        chain = (sid, outer)
        self.entry_params = dict(st.scopes[sid])
        for cl in self.c.requires:
            for s2, v in self.eval_clause(cl, st, chain):
                if v.k == "raise":
                    raise OutOfReach(f"requires clause raised: {cl}")
                st.pc.append(self.truth_st(v, s2))
        return st, chain

    def run(self):
        st, chain = self.initial_state()
        # vacuity: requires satisfiable
        self.oblige_cover("requires satisfiable", st)
        entry = st.fork()
        st.entry = entry
        body = loader.strip_docstring(self.fn.body)
        outs = self.block(body, st, chain)
        nret = 0
        for s, oc in outs:
            if oc[0] == "fall":
                self._post(s, chain, NONE, None, entry)
                nret += 1
            elif oc[0] == "return":
                self._post(s, chain, oc[1], oc[2], entry)
                nret += 1
            elif oc[0] == "raise":
                self._post_raise(s, chain, oc, entry)
            else:
                raise OutOfReach(f"stray {oc[0]} at function level")
        self.nreturns = nret
        missing = (set(self.c.loops) | {"assert:" + k for k in self.c.asserts}) - self.matched_loops
        if missing:
            raise OutOfReach(f"contract drift: loop(s) {sorted(missing)} named by the sidecar not found in the source")
        return self.obligs

    def oblige_cover(self, what, st):
        # cover: pc satisfiable -- recorded as a 'cover' obligation whose goal is
        # "pc is satisfiable"; discharged by a sat answer
        self.obligs.append(Obligation("cover", self.cur_fn, what, 0, list(st.pc), None, prop=self.c.prop))

    def _clause_env(self, s: St, result: V, entry: St):
        return {"result": result}

    def _post(self, s: St, chain, result: V, node, entry: St):
        site = loader.norm(node) if node is not None else "<fall off end>"
        if self.mode == "value" and self.c.result:
            ok = self._result_kind_ok(result, self.c.result, s)
            if ok is not True:
                self.oblige("post@return", f"result kind {self.c.result} @ {site[:80]}", s,
                            z3.BoolVal(False) if ok is False else ok,
                            detail=f"returned kind {result.k}")
        for cl in self.c.ensures:
            self._oblige_clause("post@return", cl, s, chain, result, entry, site, node)
        for cl in self.c.drift:
            self._oblige_clause("drift", cl, s, chain, result, entry, site, node)

    def _oblige_clause(self, kind, cl, s, chain, result, entry, site, node):
        s1 = s.fork()
        env = dict(getattr(self, "entry_params", {}))     # parameter names denote entry values
        env["result"] = result if result is not None else NONE
        # the auxiliary definitions may fork (conditional expressions): one obligation per combination
        work = [(s1, env)]
        for nm, src in self.c.lets.items():
            nxt = []
            for sa, ea in work:
                for sb, vb in self.eval_clause(src, sa, chain, ea):
                    if vb.k == "raise":
                        continue
                    eb = dict(ea)
                    eb[nm] = vb
                    nxt.append((sb, eb))
            work = nxt
        for sa, ea in work:
            for s2, v in self.eval_clause(cl, sa, chain, ea):
                ob_site = f"{cl} @ {site[:80]}"
                if v.k == "raise":
                    self.oblige(kind, ob_site, s2, z3.BoolVal(False), detail=f"clause raised {v.t}")
                else:
                    self.obligs.append(Obligation(kind, self.cur_fn, ob_site[:200], 0, list(s2.pc),
                                                  self.truth_st(v, s2), prop=self.c.prop,
                                                  line=getattr(node, "lineno", 0),
                                                  hints=["cvc5-first"] if (getattr(self.c, "node_stack", "")
                                                                           or getattr(self.c, "cvc5_first", False)) else []))

    def _post_raise(self, s: St, chain, oc, entry: St):
        exc = oc[1]
        if self.mode == "value":
            allowed = any(exc_matches(exc, r) for r in self.c.raises)
            if not allowed and exc != "AnyException":
                self.oblige("safety", f"escaping {exc}: {oc[2]}", s, z3.BoolVal(False), exc=exc)
        for cl in self.c.raises_ensures:
            self._oblige_clause("post@raise", cl, s, chain, NONE, entry, f"raise {exc}: {oc[2]}", None)

    def _result_kind_ok(self, v: V, spec: str, st: St):
        if spec == "str":
            return True if v.k == "str" else (False if v.k != "opq" else False)
        if spec == "optstr":
            return v.k in ("str", "none")
        if spec == "bool":
            return v.k == "bool"
        if spec == "int":
            return v.k == "int"
        if spec == "none":
            return v.k == "none"
        return True


def _tid(t):
    if isinstance(t, z3.AstRef):
        return t.get_id()
    if isinstance(t, (str, int, bool, type(None))):
        return t
    return id(t)


def _item_sig(v):
    if isinstance(v, tuple):
        return tuple(_item_sig(e) for e in v)
    return (v.k, _tid(v.t))


_LOAD_CACHE: dict = {}


def _as_load(t):
    k = id(t)
    if k not in _LOAD_CACHE:
        n = ast.parse(ast.unparse(t), mode="eval").body
        for sub in ast.walk(n):
            sub.lineno = getattr(t, "lineno", 0)
            sub.end_lineno = getattr(t, "end_lineno", 0)
            sub.col_offset = 0
            sub.end_col_offset = 0
        _LOAD_CACHE[k] = (t, n)
    return _LOAD_CACHE[k][1]
