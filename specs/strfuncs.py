"""Reference definitions (MediaWiki ParserFunctions / StringFunctions docs) written
in the translatable subset: loop-free, over str/int.  Executed symbolically by
pyvc when a contract clause calls spec.<name>(...), and natively by the bounded
tier.  `strip`, `lower`, `upper` are the uninterpreted functions shared with
the code."""


def arg(args, i, default):
    """i-th argument after expansion by the (total) expander E and trimming,
    or `default` when absent"""
    return expander(args[i]).strip() if len(args) > i else default


def arg_raw(args, i, default):
    """i-th argument after expansion, not trimmed"""
    return expander(args[i]) if len(args) > i else default


def to_int(s, default):
    """PHP-like (int) of a numeral in the envelope: a string Python's int()
    accepts; anything else counts as `default`"""
    return int(s) if parses_as_int(s) else default


def mb_substr(s, start, length):
    """PHP mb_substr($s, $start, $length) with $length == 0 meaning 'to the end'
    (the #sub convention)"""
    n = len(s)
    b = max(0, n + start) if start < 0 else min(start, n)
    if length == 0:
        e = n
    elif length < 0:
        e = max(b, n + length)
    else:
        e = min(n, b + length)
    return s[b:e]


def sub(args):
    s = arg(args, 0, "")
    start = to_int(arg(args, 1, ""), 0)
    length = to_int(arg(args, 2, ""), 0)
    return mb_substr(s, start, length)


def needle(args, i):
    """#pos/#rpos/#replace/#explode: an absent or empty needle means one blank"""
    return (expander(args[i]) or " ") if len(args) > i else " "


def pos(args):
    s = arg(args, 0, "")
    nd = needle(args, 1)
    off = arg(args, 2, "")
    o = int(off) if (off != "" and off.isdecimal()) else 0
    i = s.find(nd, o)
    return str(i) if i >= 0 else ""


def rpos(args):
    s = arg(args, 0, "")
    nd = needle(args, 1)
    i = s.rfind(nd)
    return str(i) if i >= 0 else "-1"


def length(args):
    return str(len(arg(args, 0, "")))


def replace(args):
    s = arg(args, 0, "")
    nd = needle(args, 1)
    rep = arg_raw(args, 2, "")
    return s.replace(nd, rep)


def explode(args):
    """#explode:string|delimiter|position|limit -- the piece at `position` (negative: counted from the end) of
    the string split at the delimiter; a positive limit smaller than the number of pieces keeps the first
    limit-1 pieces and makes the rest of the string (delimiters included) the last piece"""
    s = arg(args, 0, "")
    d = needle(args, 1)
    p = to_int(arg(args, 2, ""), 0)
    lim = to_int(arg(args, 3, ""), 0)
    pieces = s.split(d)
    n = len(pieces)
    m = lim if (lim > 0 and n > lim) else n
    i = m + p if p < 0 else p
    if i < 0 or i >= m:
        return ""
    if m < n and i == m - 1:
        return d.join(pieces[m - 1:])
    return pieces[i]


def lc(args):
    return arg(args, 0, "").lower()


def uc(args):
    return arg(args, 0, "").upper()


def lcfirst(args):
    t = arg(args, 0, "")
    return t[:1].lower() + t[1:]


def ucfirst(args):
    t = arg(args, 0, "")
    return t[:1].upper() + t[1:]


def pad_width(v, cnt, pad):
    """length of padleft/padright's result: the value is padded to cnt
    characters whenever the pad string is non-empty"""
    return max(len(v), cnt) if len(pad) > 0 else len(v)


def norm_add(title, ns, local_names):
    """the key under which add_page(title, ns) stores a page: the local
    namespace prefix is added when missing (never for the main namespace) and a
    literal 'Main:' prefix is dropped"""
    prefix = (local_names.get(ns, "") + ":") if ns != 0 else ""
    t = title if (ns == 0 or title.startswith(prefix)) else prefix + title
    return t[5:] if t.startswith("Main:") else t


def norm_get_main(title):
    """the key get_page(title, 0) looks up: underscores are blanks, a literal
    'Main:' prefix is dropped"""
    t = title.replace("_", " ")
    return t[5:] if t.startswith("Main:") else t


def add_newline(text):
    """MediaWiki: an expansion starting with a list / table marker gets a newline prepended"""
    return "\n" + text if text.startswith(("*", ";", ":", "#", "{|")) else text


def if_spec(args):
    """#if: the trimmed expanded first argument selects the (trimmed, expanded) 2nd or 3rd; missing => ''"""
    c = expander(args[0]).strip() if len(args) > 0 else ""
    return arg(args, 1, "") if c != "" else arg(args, 2, "")


def ifeq_spec(args):
    a = expander(args[0]).strip() if len(args) > 0 else ""
    b = expander(args[1]).strip() if len(args) > 1 else ""
    return arg(args, 2, "") if a == b else arg(args, 3, "")
