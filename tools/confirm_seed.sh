#!/bin/bash
# tools/confirm_seed.sh <src_dir with patch.diff demo.py meta.json> <name>
# confirms in a scratch worktree of /repo HEAD: demo passes clean, fails patched, suite pass count unchanged
src="$1"; name="$2"
wt=/tmp/wt_confirm_$$
git -C /repo worktree add --detach "$wt" HEAD -q || exit 3
trap 'git -C /repo worktree remove --force "$wt"' EXIT
cd "$wt"
PYTHONPATH=$wt/src /venv/bin/python "$src/demo.py" > /tmp/cs_clean_$$.out 2>&1; rc_clean=$?
git apply "$src/patch.diff" || { echo "$name: patch does not apply to HEAD"; exit 2; }
PYTHONPATH=$wt/src /venv/bin/python "$src/demo.py" > /tmp/cs_patched_$$.out 2>&1; rc_patched=$?
passed=$(PYTHONPATH=$wt/src timeout 1500 /venv/bin/python -m pytest -q -p no:cacheprovider --timeout=900 tests 2>&1 | tail -1)
echo "$name: demo clean rc=$rc_clean patched rc=$rc_patched ; suite with patch: $passed"
if [ $rc_clean -eq 0 ] && [ $rc_patched -ne 0 ] && echo "$passed" | grep -q "729 passed"; then
  mkdir -p /verif/seeded/$name
  cp "$src/patch.diff" "$src/demo.py" /verif/seeded/$name/
  python3 - "$src/meta.json" "/verif/seeded/$name/meta.json" "$passed" "$(tail -3 /tmp/cs_patched_$$.out | tr '\n' ' ' | cut -c1-300)" <<'PY'
import json,sys
m=json.load(open(sys.argv[1]))
m['confirmed']={'base':'/repo HEAD at confirmation time','demo_clean_exit':0,'demo_patched_exit':'non-zero','suite_with_patch':sys.argv[3],'demo_output_with_patch':sys.argv[4],
  'how':'tools/confirm_seed.sh in a scratch worktree of /repo (removed afterwards)'}
json.dump(m,open(sys.argv[2],'w'),indent=1)
PY
  echo "$name: KEPT"
else
  echo "$name: REJECTED"; tail -5 /tmp/cs_clean_$$.out
fi
