#!/bin/bash
# tools/mut_pad.sh: sanity mutations for the #pad contract (C18).  Each mutation is applied to its own scratch copy
# of /repo/src (removed afterwards) and the pad_fn obligations that are not `proved` are shown, the four runs in
# parallel (expected: at least one `refuted` line for mutations 2 and 3, only the summary line on the unchanged
# tree; mutation 1 -- the halves of `center` swapped -- is NOT detected: the contract does not state the placement
# for `center`, see contracts/c18.py).
cd /verif
out=/tmp/mutpad_out_$$; mkdir -p $out
run() {  # $1 = ordinal, $2 = label, $3 = sed expression ('' = unchanged tree)
    sc=/tmp/sc_mutpad_$$_$1
    mkdir -p $sc; cp -r /repo/src $sc/
    [ -n "$3" ] && sed -i "$3" $sc/src/wikitextprocessor/parserfns.py
    {
        if [ -n "$3" ] && cmp -s /repo/src/wikitextprocessor/parserfns.py $sc/src/wikitextprocessor/parserfns.py; then
            echo "== $2: mutation did not apply"
        else
            echo "== $2"
            VERIF_REPO=$sc python3-vt dbg3.py c18 pad_fn 2>&1 | grep -v '^  proved' | cut -c1-170 | sort | uniq -c | tail -6
        fi
    } > $out/$1.txt
    rm -rf $sc
}
run 1 "center: larger half first" 's|v = pad\[: padlen // 2\] + v + pad\[: padlen - padlen // 2\]|v = pad[: padlen - padlen // 2] + v + pad[: padlen // 2]|' &
run 2 "default direction pads on the right" 's|            v = pad\[:padlen\] + v$|            v = v + pad[:padlen]|' &
run 3 "empty third argument no longer means 0" 's|pad = expander(args\[2\]) if len(args) >= 3 and args\[2\] else "0"|pad = expander(args[2]) if len(args) >= 3 else "0"|' &
run 4 "unchanged tree" '' &
wait
cat $out/1.txt $out/2.txt $out/3.txt $out/4.txt
rm -rf $out
