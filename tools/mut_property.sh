#!/bin/bash
# tools/mut_property.sh [full]: sanity mutation for the #property / #statements totality contracts (C05).
# Copies /repo/src to a scratch directory, weakens the index guard of property_fn, and shows the verdict of the
# contract on the mutated copy (expected: refuted) and on the unchanged tree (expected: no refuted line).
# With `full`, runs the whole C05 quick check against the mutated copy (expected: VIOLATION + exit 1, no evidence written).
sc=/tmp/sc_mutprop_$$
mkdir -p $sc; cp -r /repo/src /repo/tests $sc/
sed -i 's/if len(args) > 1 and args\[1\].startswith("from=")/if len(args) > 0 and args[1].startswith("from=")/' \
    $sc/src/wikitextprocessor/parserfns.py
cmp -s /repo/src/wikitextprocessor/parserfns.py $sc/src/wikitextprocessor/parserfns.py && { echo "mutation did not apply"; rm -rf $sc; exit 3; }
cd /verif
if [ "$1" = full ]; then
    VERIF_REPO=$sc VERIF_NO_EVIDENCE=1 ./run C05 quick; echo "exit=$?"
else
    echo "== mutated copy"; VERIF_REPO=$sc python3-vt dbg2.py c05 property_fn 2>&1 | tail -5
    echo "== unchanged tree"; python3-vt dbg2.py c05 property_fn 2>&1 | tail -3
fi
rm -rf $sc
