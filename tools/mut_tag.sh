#!/bin/bash
# tools/mut_tag.sh: sanity mutations for the #tag contract (C18) on scratch copies of /repo/src (removed afterwards).
# Expected: a `refuted` line for each mutation, only the summary line on the unchanged tree.
cd /verif
run() {  # $1 = label, $2 = sed expression ('' = unchanged tree)
    sc=/tmp/sc_muttag_$$
    mkdir -p $sc; cp -r /repo/src $sc/
    [ -n "$2" ] && sed -i "$2" $sc/src/wikitextprocessor/parserfns.py
    if [ -n "$2" ] && cmp -s /repo/src/wikitextprocessor/parserfns.py $sc/src/wikitextprocessor/parserfns.py; then
        echo "== $1: mutation did not apply"
    else
        echo "== $1"
        VERIF_REPO=$sc python3-vt dbg3.py c18 tag_fn 2>&1 | grep -v '^  proved' | cut -c1-170 | sort | uniq -c | tail -4
    fi
    rm -rf $sc
}
run "self-closing form loses its blank" 's|ret = "<{}{} />".format(tag, attrs_str)|ret = "<{}{}/>".format(tag, attrs_str)|'
run "closing tag uses the unexpanded name" 's|ret = "<{}{}>{}</{}>".format(tag, attrs_str, content, tag)|ret = "<{}{}>{}</{}>".format(tag, attrs_str, content, args[0])|'
run "unchanged tree" ''
