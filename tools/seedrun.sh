#!/bin/bash
# tools/seedrun.sh <seed> <CHECK> [tier]: run one check against a scratch copy of /repo with the seed applied
seed=$1; chk=$2; tier=${3:-quick}
sc=/tmp/sc_${seed}_$$
mkdir -p $sc; cp -r /repo/src /repo/tests $sc/
( cd $sc && patch -p1 -s -i /verif/seeded/$seed/patch.diff ) || { echo "patch failed"; rm -rf $sc; exit 3; }
cd /verif; VERIF_REPO=$sc VERIF_NO_EVIDENCE=1 ./run $chk $tier; rc=$?
rm -rf $sc; echo "exit=$rc"
