#!/bin/bash
# tools/with_patch.sh <patch.diff> [-R] <id> [<id>...] : apply the patch to /repo, run the quick checks, undo.
patch="$(readlink -f "$1")"; shift
rev=""; if [ "$1" = "-R" ]; then rev="-R"; shift; fi
cd /repo || exit 3
git diff --quiet || { echo "/repo has uncommitted changes"; exit 3; }
git apply $rev "$patch" || { echo "patch does not apply"; exit 3; }
trap 'git -C /repo checkout -- . ; git -C /repo clean -fdq src tests 2>/dev/null' EXIT
cd /verif
for id in "$@"; do
  ./run "$id" quick > "/tmp/wp_$id.out" 2>&1; rc=$?
  echo "== $id exit=$rc  $(grep -c '^VIOLATION' /tmp/wp_$id.out) violations"
  grep '^VIOLATION\|^UNDECIDED\|^CHECKER' "/tmp/wp_$id.out" | cut -c1-220 | head -8
done
